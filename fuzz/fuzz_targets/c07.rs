#![no_main]
// Coverage-guided tier of C07: the input bytes are the choice tape (little-endian u64 words) of
// sub-check "calls"; decoder, operations and oracle are exactly those of the property-based tier.
use libfuzzer_sys::fuzz_target;

fuzz_target!(|data: &[u8]| {
    vmv::fuzz_entry("C07", "calls", data);
});
