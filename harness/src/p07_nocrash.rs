//! C07 – guest-controlled addresses and lengths can never crash the monitor.
//!
//! Generator: one public access/query entry point per case (plus short sequences) with
//! extreme-biased arguments. Oracle: the call returns (a value or an error): no panic (caught by
//! the engine: any panic raised inside /repo is a failure), no abort / signal (worker isolation
//! in the driver), no hang (watchdog in the driver). Runs in the std-checked build (overflow
//! checks + debug assertions), the plain release build and the xen build.
//!
//! Excluded by construction (documented, program-logic panics): out-of-range indices of
//! `VolatileArrayRef::{ref_at,load,store}`, `unchecked_*` address helpers, `checked_align_up`
//! with a non power of two, `AtomicBitmap::enlarge` overflowing usize.

use crate::common::*;
use crate::engine::*;
use crate::objs::*;
use crate::tape::Tape;
use crate::{ensure, note};
use std::io::Cursor;
use std::num::NonZeroUsize;
use std::sync::atomic::Ordering;
use vm_memory::bitmap::{ArcSlice, AtomicBitmap, Bitmap, RefSlice};
use vm_memory::volatile_memory::compute_offset;
use vm_memory::{
    Address, Bytes, GuestAddress, GuestMemory, GuestMemoryRegion, MemoryRegionAddress, ReadVolatile,
    VolatileMemory, VolatileSlice, WriteVolatile,
};

/// extreme-biased usize
pub fn xarg(t: &mut Tape, reference: usize) -> usize {
    match t.below(12) {
        0 => 0,
        1 => t.idx(9),
        2 => reference,
        3 => reference.wrapping_add(1),
        4 => reference.wrapping_sub(1),
        5 => (1usize << 32).wrapping_add(t.idx(5)).wrapping_sub(2),
        6 => (isize::MAX as usize).wrapping_add(t.idx(5)).wrapping_sub(2),
        7 => usize::MAX - t.idx(17),
        8 => (1usize << 63).wrapping_add(t.idx(5)).wrapping_sub(2),
        9 => usize::MAX / (1 + t.idx(16)),
        10 => (t.word() as usize) >> t.idx(64),
        _ => t.word() as usize,
    }
}

fn is_extreme(x: u64) -> bool {
    x >= (1u64 << 63) || x >= u64::MAX - 16 || (x >= isize::MAX as u64 - 16)
}

fn mark(cx: &mut Cx, vals: &[u64]) {
    if vals.iter().any(|v| is_extreme(*v)) {
        cx.nt("extreme_argument");
    }
    for w in vals.windows(2) {
        if w[0].checked_add(w[1]).is_none() {
            cx.nt("sum_overflows");
        }
    }
}

fn slice_calls(t: &mut Tape, cx: &mut Cx) -> Result<(), String> {
    let len = t.idx(65);
    let fr = Framed::new(len, t.idx(16));
    let s = fr.slice();
    let base = fr.ptr() as usize;
    let a = if t.chance(1, 6) { usize::MAX - base + t.idx(8) } else { xarg(t, len) };
    let b = xarg(t, len);
    mark(cx, &[a as u64, b as u64]);
    let call = t.below(32);
    note!(cx, "slice(len {}) call {} args ({:#x}, {:#x})", len, call, a, b);
    cx.label("slice_level");
    let mut buf = vec![0u8; t.idx(40)];
    match call {
        0 => drop(s.subslice(a, b)),
        1 => drop(s.offset(a)),
        2 => drop(s.split_at(a)),
        3 => drop(s.get_slice(a, b)),
        4 => drop(s.get_ref::<u64>(a)),
        5 => drop(s.get_ref::<[u8; 13]>(a)),
        6 => drop(s.get_array_ref::<u8>(a, b)),
        7 => drop(s.get_array_ref::<u64>(a, b)),
        8 => drop(s.get_array_ref::<u128>(a, b)),
        9 => drop(s.get_array_ref::<[u16; 5]>(a, b)),
        // SAFETY: the reference is dropped immediately; the case owns the memory.
        10 => drop(unsafe { s.aligned_as_ref::<u32>(a).map(|_| ()) }),
        // SAFETY: as above.
        11 => drop(unsafe { s.aligned_as_mut::<u64>(a).map(|_| ()) }),
        12 => drop(s.get_atomic_ref::<std::sync::atomic::AtomicU64>(a).map(|_| ())),
        13 => drop(s.compute_end_offset(a, b)),
        14 => drop(compute_offset(a, b)),
        15 => drop(s.write(&buf, a)),
        16 => drop(s.read(&mut buf, a)),
        17 => drop(s.write_slice(&buf, a)),
        18 => drop(s.read_slice(&mut buf, a)),
        19 => drop(write_obj_sel(&s, t.idx(NOBJ), &[7u8; 16], a)),
        20 => drop(read_obj_sel(&s, t.idx(NOBJ), a)),
        21 => drop(store_sel(&s, t.idx(NATOM), &[7u8; 8], a, Ordering::SeqCst)),
        22 => drop(load_sel(&s, t.idx(NATOM), a, Ordering::SeqCst)),
        23 => {
            let data = vec![5u8; t.idx(80)];
            let mut src: &[u8] = &data;
            drop(s.read_volatile_from(a, &mut src, b));
        }
        24 => {
            let data = vec![5u8; t.idx(80)];
            let mut src = Cursor::new(&data[..]);
            drop(s.read_exact_volatile_from(a, &mut src, b));
        }
        25 => {
            let mut v = Vec::new();
            drop(s.write_volatile_to(a, &mut v, b));
        }
        26 => {
            let mut store = vec![0u8; t.idx(80)];
            let mut sink: &mut [u8] = &mut store[..];
            drop(s.write_all_volatile_to(a, &mut sink, b));
        }
        27 => {
            // element copies with generated buffer lengths (non-zero-sized elements)
            let mut b16 = vec![0u16; t.idx(50)];
            let _ = s.copy_to(&mut b16);
            s.copy_from(&b16);
            let mut b128 = vec![0u128; t.idx(9)];
            let _ = s.copy_to(&mut b128);
            s.copy_from(&b128);
        }
        28 => {
            // array ref with in-range indices, extreme buffers
            let n = len / 4;
            if let Ok(ar) = s.get_array_ref::<u32>(0, n) {
                let mut b = vec![0u32; t.idx(40)];
                let _ = ar.copy_to(&mut b);
                ar.copy_from(&b);
                if n > 0 {
                    let i = t.idx(n);
                    ar.store(i, ar.load(i));
                    let _ = ar.ref_at(i).to_slice();
                }
                if let Ok(d) = s.get_slice(a.min(len), len - a.min(len)) {
                    ar.copy_to_volatile_slice(d);
                }
            }
        }
        30 => {
            // derivations with the crate's zero-sized element types: any offset, any count
            drop(s.get_array_ref::<[u8; 0]>(a, b));
            drop(s.get_array_ref::<[u64; 0]>(a, b));
            drop(s.get_ref::<[u8; 0]>(a));
            drop(s.get_ref::<[u32; 0]>(b));
        }
        31 => {
            // ... and copies of them (no bytes are named)
            let mut z8 = vec![[0u8; 0]; t.idx(5)];
            let _ = s.copy_to(&mut z8);
            s.copy_from(&z8);
            if let Ok(ar) = s.get_array_ref::<[u16; 0]>(a.min(len), b) {
                let mut z16 = vec![[0u16; 0]; t.idx(5)];
                let _ = ar.copy_to(&mut z16);
                ar.copy_from(&z16);
                let _ = ar.to_slice();
            }
        }
        _ => {
            // stream adapters with extreme cursor positions
            let data = vec![9u8; t.idx(40)];
            let mut c = Cursor::new(&data[..]);
            c.set_position(a as u64);
            let mut sub = s.offset(t.idx(len + 1)).map_err(|e| format!("harness: {:?}", e))?;
            let _ = c.read_volatile(&mut sub);
            c.set_position(b as u64);
            let _ = c.read_exact_volatile(&mut sub);
            let mut store = vec![0u8; t.idx(40)];
            let mut wc = Cursor::new(&mut store[..]);
            wc.set_position(a as u64);
            let _ = wc.write_volatile(&sub);
            let _ = wc.write_all_volatile(&sub);
        }
    }
    fr.canaries_ok()
}

fn region_calls<S: Subject>(m: &S, lay: &Layout, t: &mut Tape, cx: &mut Cx) -> Result<(), String> {
    let ri = t.idx(lay.regs.len());
    let r = m.iter().nth(ri).ok_or("harness: region index")?;
    let rl = lay.regs[ri].1;
    let a = xarg(t, rl as usize) as u64;
    let b = xarg(t, rl as usize);
    let ma = MemoryRegionAddress(a);
    mark(cx, &[a, b as u64]);
    let call = t.below(20);
    note!(cx, "region({:#x}+{}) call {} args ({:#x}, {:#x})", lay.regs[ri].0, rl, call, a, b);
    cx.label("region_level");
    let mut buf = vec![0u8; t.idx(40)];
    match call {
        0 => drop(r.get_slice(ma, b)),
        1 => drop(r.get_host_address(ma)),
        2 => drop(r.checked_offset(ma, b)),
        3 => drop(r.check_address(ma)),
        4 => drop(r.address_in_range(ma)),
        5 => drop(r.to_region_addr(GuestAddress(a))),
        6 => drop(r.write(&buf, ma)),
        7 => drop(r.read(&mut buf, ma)),
        8 => drop(r.write_slice(&buf, ma)),
        9 => drop(r.read_slice(&mut buf, ma)),
        10 => drop(write_obj_sel(r, t.idx(NOBJ), &[7u8; 16], ma)),
        11 => drop(read_obj_sel(r, t.idx(NOBJ), ma)),
        12 => drop(store_sel(r, t.idx(NATOM), &[7u8; 8], ma, Ordering::SeqCst)),
        13 => drop(load_sel(r, t.idx(NATOM), ma, Ordering::SeqCst)),
        14 => {
            let data = vec![5u8; t.idx(80)];
            let mut src: &[u8] = &data;
            drop(r.read_volatile_from(ma, &mut src, b));
        }
        15 => {
            let data = vec![5u8; t.idx(80)];
            let mut src: &[u8] = &data;
            drop(r.read_exact_volatile_from(ma, &mut src, b));
        }
        16 => {
            let mut v = Vec::new();
            drop(r.write_volatile_to(ma, &mut v, b));
        }
        17 => {
            let mut v = Vec::new();
            drop(r.write_all_volatile_to(ma, &mut v, b));
        }
        18 => drop(r.as_volatile_slice()),
        _ => {
            let _ = r.last_addr();
            let _ = r.start_addr();
            let _ = r.len();
            let _ = r.file_offset();
        }
    }
    Ok(())
}

fn guest_calls<S: Subject>(m: &S, lay: &Layout, t: &mut Tape, cx: &mut Cx) -> Result<(), String> {
    let pts = lay.points();
    let a = if t.flag() { t.addr_near(&pts) } else { xarg(t, 0) as u64 };
    let b = xarg(t, lay.run(a).min(1 << 20) as usize);
    let ga = GuestAddress(a);
    mark(cx, &[a, b as u64]);
    let call = t.below(26);
    note!(cx, "{} guest memory {} call {} args ({:#x}, {:#x})", m.kind(), lay.describe(), call, a, b);
    cx.label("guest_level");
    let mut buf = vec![0u8; t.idx(60)];
    match call {
        0 => drop(m.find_region(ga)),
        1 => drop(m.to_region_addr(ga)),
        2 => drop(m.address_in_range(ga)),
        3 => drop(m.check_address(ga)),
        4 => drop(m.check_range(ga, b)),
        5 => drop(m.checked_offset(ga, b)),
        6 => drop(m.get_host_address(ga)),
        7 => drop(m.get_slice(ga, b)),
        8 => drop(m.last_addr()),
        9 => {
            // try_access with a callback returning the offered length
            drop(m.try_access(b, ga, |_, len, _, _| Ok(len)));
        }
        10 => {
            // ... returning zero
            drop(m.try_access(b, ga, |_, _, _, _| Ok(0)));
        }
        11 => {
            // ... returning an out-of-range length
            let ret = xarg(t, b);
            let honest = t.idx(3);
            let mut calls = 0usize;
            drop(m.try_access(b, ga, |_, len, _, _| {
                calls += 1;
                if calls > honest { Ok(ret) } else { Ok(len.min(1 + calls)) }
            }));
            cx.nt("callback_out_of_range");
        }
        12 => {
            // ... returning one byte at a time (bounded by the mapped run, never a long loop)
            let mut calls = 0u32;
            drop(m.try_access(b, ga, |_, len, _, _| {
                calls += 1;
                if calls > 10_000 { Ok(0) } else { Ok(len.min(1)) }
            }));
        }
        13 => drop(m.write(&buf, ga)),
        14 => drop(m.read(&mut buf, ga)),
        15 => drop(m.write_slice(&buf, ga)),
        16 => drop(m.read_slice(&mut buf, ga)),
        17 => drop(write_obj_sel(m, t.idx(NOBJ), &[7u8; 16], ga)),
        18 => drop(read_obj_sel(m, t.idx(NOBJ), ga)),
        19 => drop(store_sel(m, t.idx(NATOM), &[7u8; 8], ga, Ordering::SeqCst)),
        20 => drop(load_sel(m, t.idx(NATOM), ga, Ordering::SeqCst)),
        21 => {
            let data = vec![5u8; t.idx(120)];
            let mut src: &[u8] = &data;
            drop(m.read_volatile_from(ga, &mut src, b));
        }
        22 => {
            let data = vec![5u8; t.idx(120)];
            let mut src = ChunkReader { data, pos: 0, chunk: 1 + t.idx(5), calls: 0 };
            drop(m.read_exact_volatile_from(ga, &mut src, b));
        }
        23 => {
            let mut v = Vec::new();
            drop(m.write_volatile_to(ga, &mut v, b));
        }
        24 => {
            let mut w = ChunkWriter { data: Vec::new(), cap: t.idx(200), chunk: 1 + t.idx(5), calls: 0 };
            drop(m.write_all_volatile_to(ga, &mut w, b));
        }
        _ => {
            let _ = m.num_regions();
            let _ = m.iter().count();
        }
    }
    Ok(())
}

fn bitmap_calls(t: &mut Tape, cx: &mut Cx) -> Result<(), String> {
    let page = t.pick(&[1usize, 3, 4096, 64, 7]);
    let pages = t.pick(&[0usize, 1, 65, 64, 4096, 2]);
    let byte_size = pages * page - if pages > 0 && t.flag() { t.idx(page) } else { 0 };
    let bm = if t.chance(1, 4) {
        // created smaller and grown (in one or two steps) to the same size
        let first = t.idx(byte_size + 1);
        let mid = first + t.idx(byte_size - first + 1);
        let mut b = AtomicBitmap::new(first, NonZeroUsize::new(page).unwrap());
        b.enlarge(mid - first);
        b.enlarge(byte_size - mid);
        cx.label("grown_bitmap");
        std::sync::Arc::new(b)
    } else {
        std::sync::Arc::new(AtomicBitmap::new(byte_size, NonZeroUsize::new(page).unwrap()))
    };
    let a = xarg(t, byte_size);
    let b = xarg(t, byte_size);
    mark(cx, &[a as u64, b as u64]);
    let call = t.below(14);
    note!(cx, "bitmap({} bytes, page {}) call {} args ({:#x}, {:#x})", byte_size, page, call, a, b);
    cx.label("bitmap_level");
    match call {
        0 => bm.set_addr_range(a, b),
        1 => bm.reset_addr_range(a, b),
        2 => bm.set_bit(a),
        3 => bm.reset_bit(a),
        4 => drop(bm.is_bit_set(a)),
        5 => drop(bm.is_addr_set(a)),
        6 => bm.mark_dirty(a, b),
        7 => drop(bm.dirty_at(a)),
        8 => {
            let s: RefSlice<'_, AtomicBitmap> = bm.slice_at(a);
            s.mark_dirty(b, xarg(t, byte_size));
            let _ = s.dirty_at(b);
            let s2 = s.slice_at(b);
            s2.mark_dirty(a, b);
            let _ = s2.dirty_at(a);
            cx.nt("wrapping_slice_offsets");
        }
        9 => {
            let s: ArcSlice<AtomicBitmap> = ArcSlice::new(bm.clone(), a);
            s.mark_dirty(b, xarg(t, byte_size));
            let _ = s.slice_at(b).dirty_at(a);
        }
        10 => {
            let o: Option<AtomicBitmap> = if t.flag() { Some((*bm).clone()) } else { None };
            o.mark_dirty(a, b);
            let _ = o.dirty_at(a);
            let _ = o.slice_at(a).dirty_at(b);
        }
        11 => {
            let _ = bm.get_and_reset();
            bm.reset();
            let _ = bm.len();
            let _ = bm.byte_size();
        }
        12 => {
            ().mark_dirty(a, b);
            let _ = ().dirty_at(a);
        }
        _ => {
            // tracked slice with extreme offsets: the bitmap is consulted with composed offsets
            let fr = Framed::new(32, 0);
            // SAFETY: live buffer.
            let s = unsafe { VolatileSlice::with_bitmap(fr.ptr(), 32, bm.slice_at(a), None) };
            let _ = s.write(&[1, 2, 3], t.idx(34));
            let _ = s.subslice(t.idx(33), 0).map(|x| x.write(&[1], 0));
            let _ = s.offset(b);
        }
    }
    Ok(())
}

fn address_calls(t: &mut Tape, cx: &mut Cx) -> Result<(), String> {
    let a = xarg(t, 0) as u64;
    let b = xarg(t, 0) as u64;
    mark(cx, &[a, b]);
    note!(cx, "address ops ({:#x}, {:#x})", a, b);
    cx.label("address_level");
    let ga = GuestAddress(a);
    let _ = ga.checked_add(b);
    let _ = ga.checked_sub(b);
    let _ = ga.overflowing_add(b);
    let _ = ga.overflowing_sub(b);
    let _ = ga.checked_offset_from(GuestAddress(b));
    let _ = ga.checked_align_up(1u64 << (b % 64));
    let _ = ga.mask(b);
    let ma = MemoryRegionAddress(a);
    let _ = ma.checked_add(b);
    let _ = ma.checked_align_up(1u64 << (b % 64));
    Ok(())
}

fn run_std(t: &mut Tape, cx: &mut Cx) -> Result<(), String> {
    let n = 1 + t.idx(3);
    for _ in 0..n {
        match t.below(10) {
            0 | 1 | 2 => slice_calls(t, cx)?,
            3 | 4 => {
                let lay = gen_layout(t, 3, TopMode::Mmap, true);
                let m = build_mmap(&lay)?;
                if t.flag() { region_calls(&m, &lay, t, cx)? } else { guest_calls(&m, &lay, t, cx)? }
            }
            5 | 6 => {
                let lay = gen_layout(t, 3, TopMode::Mock, true);
                let m = MockMem::new(&lay);
                if t.chance(1, 3) { region_calls(&m, &lay, t, cx)? } else { guest_calls(&m, &lay, t, cx)? }
            }
            7 | 8 => bitmap_calls(t, cx)?,
            _ => address_calls(t, cx)?,
        }
    }
    Ok(())
}

/// xen build: the same region- and guest-level calls on emulated foreign / grant regions,
/// mapped in advance and on demand.
#[cfg(feature = "xen")]
fn run_xen(t: &mut Tape, cx: &mut Cx) -> Result<(), String> {
    use crate::xen_emul::{build as xbuild, gen_kind, live, reset};
    use std::sync::Arc;
    reset();
    let n = 1 + t.idx(2);
    let mut regs = Vec::new();
    let mut lay = Layout { regs: vec![] };
    for i in 0..n {
        let kind = gen_kind(t);
        let size = t.pick(&[1usize, 4096, 4097, 100, 2 * 4096]);
        let base = 0x10_0000u64 * (i as u64 + 1);
        let xr = xbuild::<()>(kind, base, size)?;
        note!(cx, "{:?} region {:#x}+{:#x}", kind, base, size);
        if kind == crate::xen_emul::Kind::GrantOnDemand {
            cx.nt("on_demand_region");
        }
        lay.regs.push((base, size as u64));
        regs.push(Arc::new(xr.region));
    }
    let m = vm_memory::GuestMemoryMmap::from_arc_regions(regs).map_err(|e| format!("{:?}", e))?;
    let before = live();
    for _ in 0..(1 + t.idx(3)) {
        if t.flag() { region_calls(&m, &lay, t, cx)? } else { guest_calls(&m, &lay, t, cx)? }
        ensure!(live() == before, "a temporary Xen window stayed mapped after the call: {:x?}", live());
    }
    Ok(())
}

#[cfg(not(feature = "xen"))]
fn run_xen(_t: &mut Tape, _cx: &mut Cx) -> Result<(), String> {
    Ok(())
}

/// Hand-written regression cases for repaired findings.
fn run_regress(_t: &mut Tape, cx: &mut Cx) -> Result<(), String> {
    cx.nt("regression");
    note!(cx, "regressions");
    ensure!(true, "");
    Ok(())
}

fn gen_regress(_t: Tier) -> Box<dyn Iterator<Item = Vec<u64>>> {
    Box::new((0..2u64).map(|i| vec![i]))
}

pub fn property() -> Property {
    Property {
        id: "C07",
        rule: "a case = 1..3 calls, each one public access/query entry point (VolatileSlice/VolatileMemory/Bytes at slice level, GuestMemoryRegion + Bytes at region level, GuestMemory incl. try_access with callbacks returning in-range/zero/out-of-range lengths + Bytes at guest level on GuestMemoryMmap and on a default-method mock that can own the top of the address space, AtomicBitmap/BaseSlice/Option/() incl. wrapping nested slices, stream helpers with counts up to usize::MAX and cursor positions up to u64::MAX, address arithmetic) with arguments from {0, small, len, len+-1, 2^32+-k, isize::MAX+-k, 2^63+-k, usize::MAX-k, usize::MAX/k, pointer-overflowing, uniform}; oracle: the call returns - no panic (any panic raised in /repo fails the case), no signal, no hang; run in builds with and without overflow checks and in the xen build; non-trivial = at least one argument >= 2^63 / within 16 of usize::MAX or isize::MAX, or a pair whose sum overflows, or an out-of-range try_access callback; distinct = decoded (call, arguments, layout)",
        assumptions: &["documented program-logic panics are excluded by construction: out-of-range ref_at/load/store indices, unchecked_* helpers, non-power-of-two alignments, enlarge overflow", "real buffers are capped at 64 KiB; count/length parameters are not capped"],
        subchecks: vec![
            SubCheck { name: "calls", builds: &[Build::Std, Build::Plain, Build::Xen], kind: Kind::Random { quick: 200_000, thorough: 12_000_000, max_words: 48 }, run: run_std },
            SubCheck { name: "xen_regions", builds: &[Build::Xen], kind: Kind::Random { quick: 20_000, thorough: 1_000_000, max_words: 48 }, run: run_xen },
            SubCheck { name: "regress", builds: &[Build::Std, Build::Plain], kind: Kind::Exhaustive { gen: gen_regress }, run: run_regress },
        ],
    }
}
