//! Shared scaffolding: region layouts, the flat sparse byte model, a mock `GuestMemory` that
//! relies on the trait's default methods, canary-framed buffers.

use crate::tape::Tape;
use std::sync::atomic::Ordering;
use vm_memory::bitmap::Bitmap;
use vm_memory::guest_memory::{Error as GmError, Result as GmResult};
use vm_memory::{
    Address, AtomicAccess, Bytes, GuestAddress, GuestMemory, GuestMemoryMmap, GuestMemoryRegion,
    GuestRegionMmap, GuestUsize, MemoryRegionAddress, ReadVolatile, VolatileMemory,
    VolatileSlice, WriteVolatile,
};

pub const TOP: u128 = 1u128 << 64;

// ---------------------------------------------------------------------------------------------
// Layouts

#[derive(Clone, Debug, PartialEq, Eq)]
pub struct Layout {
    /// (start, len) sorted, disjoint, len >= 1, start+len <= 2^64
    pub regs: Vec<(u64, u64)>,
}

impl Layout {
    pub fn points(&self) -> Vec<u64> {
        let mut v = Vec::new();
        for &(s, l) in &self.regs {
            v.push(s);
            v.push(s.wrapping_add(l - 1));
            v.push(s.wrapping_add(l));
        }
        v
    }
    /// index of the region containing `a`
    pub fn find(&self, a: u64) -> Option<usize> {
        self.regs
            .iter()
            .position(|&(s, l)| a >= s && (a as u128) < s as u128 + l as u128)
    }
    /// number of consecutively mapped addresses starting at `a` (stops at 2^64)
    pub fn run(&self, a: u64) -> u128 {
        let mut cur = a as u128;
        let mut total = 0u128;
        loop {
            if cur >= TOP {
                return total;
            }
            match self.find(cur as u64) {
                None => return total,
                Some(i) => {
                    let (s, l) = self.regs[i];
                    let end = s as u128 + l as u128;
                    total += end - cur;
                    cur = end;
                }
            }
        }
    }
    pub fn span(&self) -> (u64, u128) {
        let first = self.regs.first().map(|r| r.0).unwrap_or(0);
        let last = self
            .regs
            .last()
            .map(|r| r.0 as u128 + r.1 as u128)
            .unwrap_or(0);
        (first, last)
    }
    pub fn describe(&self) -> String {
        let v: Vec<String> = self
            .regs
            .iter()
            .map(|(s, l)| format!("[{:#x}+{}]", s, l))
            .collect();
        v.join(" ")
    }
}

#[derive(Clone, Copy, PartialEq, Eq, Debug)]
pub enum TopMode {
    /// regions must satisfy start+len <= 2^64-1 (what GuestRegionMmap::new accepts)
    Mmap,
    /// regions may end exactly at 2^64 (last address 2^64-1): other GuestMemory implementations
    Mock,
}

fn gen_shapes(t: &mut Tape, n: usize, big: bool) -> (Vec<u64>, Vec<u64>) {
    let mut sizes = Vec::new();
    let mut gaps = Vec::new();
    for i in 0..n {
        let sz = if big && t.chance(1, 6) {
            t.pick(&[4096u64, 4095, 4097, 8192, 100, 65])
        } else {
            1 + t.below(24)
        };
        sizes.push(sz);
        if i > 0 {
            let g = match t.below(6) {
                0 | 1 => 0,
                2 => 1,
                3 => 2 + t.below(14),
                4 => 1u64 << (12 + t.below(20)),
                _ => 16 + t.below(4096),
            };
            gaps.push(g);
        }
    }
    (sizes, gaps)
}

fn place(base: u64, sizes: &[u64], gaps: &[u64], regs: &mut Vec<(u64, u64)>) {
    let mut cur = base;
    for i in 0..sizes.len() {
        if i > 0 {
            cur += gaps[i - 1];
        }
        regs.push((cur, sizes[i]));
        cur = cur.wrapping_add(sizes[i]);
    }
}

/// Generate a layout of 1..=max_regions regions: one cluster anchored at 0 / mid-range / 2^32 /
/// 2^63 / the top of the address space, or two clusters (one at the bottom, one at the top).
pub fn gen_layout(t: &mut Tape, max_regions: usize, top: TopMode, big: bool) -> Layout {
    let end_limit: u128 = match top {
        TopMode::Mmap => TOP - 1,
        TopMode::Mock => TOP,
    };
    let mut regs = Vec::new();
    if max_regions >= 2 && t.chance(1, 5) {
        // two clusters: bottom and top of the address space
        let n1 = 1 + t.idx(max_regions - 1);
        let n2 = 1 + t.idx(max_regions - n1);
        let (s1, g1) = gen_shapes(t, n1, big);
        let (s2, g2) = gen_shapes(t, n2, big);
        let base1 = if t.flag() { 0 } else { t.below(8) };
        place(base1, &s1, &g1, &mut regs);
        let span2: u64 = s2.iter().sum::<u64>() + g2.iter().sum::<u64>();
        let back = if t.flag() { 0 } else { t.below(8) };
        let base2 = (end_limit - span2 as u128 - back as u128) as u64;
        place(base2, &s2, &g2, &mut regs);
        return Layout { regs };
    }
    let n = 1 + t.idx(max_regions);
    let (sizes, gaps) = gen_shapes(t, n, big);
    let span: u64 = sizes.iter().sum::<u64>() + gaps.iter().sum::<u64>();
    let base: u64 = match t.below(7) {
        0 => 0,
        1 => t.below(64),
        2 => 0x1000 * (1 + t.below(16)),
        3 => (1u64 << 32) - t.below(span + 2).min(1 << 31),
        4 => (1u64 << 63) - t.below(span + 2).min(1 << 62),
        5 => (end_limit - span as u128) as u64,
        _ => ((end_limit - span as u128) as u64).saturating_sub(t.below(40)),
    };
    place(base, &sizes, &gaps, &mut regs);
    Layout { regs }
}

// ---------------------------------------------------------------------------------------------
// The flat sparse byte model

#[derive(Clone, Debug)]
pub struct FlatModel {
    pub layout: Layout,
    pub data: Vec<Vec<u8>>,
}

impl FlatModel {
    pub fn new(layout: Layout, fill: impl Fn(usize, usize) -> u8) -> Self {
        let data = layout
            .regs
            .iter()
            .enumerate()
            .map(|(ri, &(_, l))| (0..l as usize).map(|o| fill(ri, o)).collect())
            .collect();
        FlatModel { layout, data }
    }
    pub fn get(&self, a: u64) -> Option<u8> {
        self.layout
            .find(a)
            .map(|i| self.data[i][(a - self.layout.regs[i].0) as usize])
    }
    pub fn set(&mut self, a: u64, v: u8) {
        let i = self.layout.find(a).expect("model set on unmapped address");
        let o = (a - self.layout.regs[i].0) as usize;
        self.data[i][o] = v;
    }
    /// write `buf[..n]` at `a..a+n` (caller guarantees the run is long enough)
    pub fn write(&mut self, a: u64, buf: &[u8]) {
        for (k, b) in buf.iter().enumerate() {
            self.set(a.wrapping_add(k as u64), *b);
        }
    }
    pub fn read(&self, a: u64, n: usize) -> Vec<u8> {
        (0..n)
            .map(|k| self.get(a.wrapping_add(k as u64)).expect("model read unmapped"))
            .collect()
    }
}

// ---------------------------------------------------------------------------------------------
// Mock GuestMemory relying on the default methods only

pub struct MockRegion {
    start: GuestAddress,
    buf: Box<[u8]>,
    /// extra slack after the region (canary), included in buf
    len: usize,
}

pub const MOCK_SLACK: usize = 16;

impl MockRegion {
    pub fn new(start: u64, len: usize) -> Self {
        MockRegion {
            start: GuestAddress(start),
            buf: vec![0u8; len + MOCK_SLACK].into_boxed_slice(),
            len,
        }
    }
    pub fn host(&self) -> *mut u8 {
        self.buf.as_ptr() as *mut u8
    }
    fn vs(&self) -> VolatileSlice<'_, ()> {
        // SAFETY: the buffer lives as long as self; all accesses are volatile/raw.
        unsafe { VolatileSlice::new(self.host(), self.len) }
    }
}

impl Bytes<MemoryRegionAddress> for MockRegion {
    type E = GmError;
    fn write(&self, buf: &[u8], addr: MemoryRegionAddress) -> GmResult<usize> {
        self.vs().write(buf, addr.0 as usize).map_err(Into::into)
    }
    fn read(&self, buf: &mut [u8], addr: MemoryRegionAddress) -> GmResult<usize> {
        self.vs().read(buf, addr.0 as usize).map_err(Into::into)
    }
    fn write_slice(&self, buf: &[u8], addr: MemoryRegionAddress) -> GmResult<()> {
        self.vs().write_slice(buf, addr.0 as usize).map_err(Into::into)
    }
    fn read_slice(&self, buf: &mut [u8], addr: MemoryRegionAddress) -> GmResult<()> {
        self.vs().read_slice(buf, addr.0 as usize).map_err(Into::into)
    }
    fn read_volatile_from<F: ReadVolatile>(
        &self,
        addr: MemoryRegionAddress,
        src: &mut F,
        count: usize,
    ) -> GmResult<usize> {
        self.vs()
            .read_volatile_from(addr.0 as usize, src, count)
            .map_err(Into::into)
    }
    fn read_exact_volatile_from<F: ReadVolatile>(
        &self,
        addr: MemoryRegionAddress,
        src: &mut F,
        count: usize,
    ) -> GmResult<()> {
        self.vs()
            .read_exact_volatile_from(addr.0 as usize, src, count)
            .map_err(Into::into)
    }
    fn write_volatile_to<F: WriteVolatile>(
        &self,
        addr: MemoryRegionAddress,
        dst: &mut F,
        count: usize,
    ) -> GmResult<usize> {
        self.vs()
            .write_volatile_to(addr.0 as usize, dst, count)
            .map_err(Into::into)
    }
    fn write_all_volatile_to<F: WriteVolatile>(
        &self,
        addr: MemoryRegionAddress,
        dst: &mut F,
        count: usize,
    ) -> GmResult<()> {
        self.vs()
            .write_all_volatile_to(addr.0 as usize, dst, count)
            .map_err(Into::into)
    }
    fn store<T: AtomicAccess>(
        &self,
        val: T,
        addr: MemoryRegionAddress,
        order: Ordering,
    ) -> GmResult<()> {
        self.vs().store(val, addr.0 as usize, order).map_err(Into::into)
    }
    fn load<T: AtomicAccess>(&self, addr: MemoryRegionAddress, order: Ordering) -> GmResult<T> {
        self.vs().load(addr.0 as usize, order).map_err(Into::into)
    }
}

impl GuestMemoryRegion for MockRegion {
    type B = ();
    fn len(&self) -> GuestUsize {
        self.len as GuestUsize
    }
    fn start_addr(&self) -> GuestAddress {
        self.start
    }
    fn bitmap(&self) -> &() {
        &()
    }
    fn get_host_address(&self, addr: MemoryRegionAddress) -> GmResult<*mut u8> {
        self.check_address(addr)
            .ok_or(GmError::InvalidBackendAddress)
            .map(|a| self.host().wrapping_add(a.0 as usize))
    }
    fn get_slice(&self, offset: MemoryRegionAddress, count: usize) -> GmResult<VolatileSlice<'_, ()>> {
        Ok(self.vs().subslice(offset.0 as usize, count)?)
    }
}

/// A `GuestMemory` whose only own logic is a linear `find_region`; everything else is inherited
/// from the trait's provided methods. May own a region whose last address is 2^64-1.
pub struct MockMem {
    /// storage (= iteration) order; need not be sorted by address
    pub regions: Vec<MockRegion>,
    /// layout index -> storage index
    pub index_of: Vec<usize>,
}

impl MockMem {
    pub fn new(layout: &Layout) -> Self {
        let order: Vec<usize> = (0..layout.regs.len()).collect();
        Self::new_ordered(layout, &order)
    }
    /// `order[k]` = layout index of the region stored (and iterated) at position k.
    pub fn new_ordered(layout: &Layout, order: &[usize]) -> Self {
        let mut index_of = vec![0; layout.regs.len()];
        let mut regions = Vec::new();
        for (k, &li) in order.iter().enumerate() {
            let (s, l) = layout.regs[li];
            regions.push(MockRegion::new(s, l as usize));
            index_of[li] = k;
        }
        MockMem { regions, index_of }
    }
}

impl GuestMemory for MockMem {
    type R = MockRegion;
    fn num_regions(&self) -> usize {
        self.regions.len()
    }
    fn find_region(&self, addr: GuestAddress) -> Option<&MockRegion> {
        self.regions.iter().find(|r| {
            let s = r.start.0;
            addr.0 >= s && (addr.0 - s) < r.len as u64
        })
    }
    fn iter(&self) -> impl Iterator<Item = &MockRegion> {
        self.regions.iter()
    }
}

/// Uniform access to the raw bytes of a guest memory object, *not* through the API under test.
pub trait Subject: GuestMemory {
    fn host(&self, region: usize) -> *mut u8;
    /// bytes physically available after the region's end (canary/slack)
    fn slack(&self, region: usize) -> usize;
    fn kind(&self) -> &'static str;
    /// raw view of a region's bytes, independent of the API under test (default: host pointer)
    fn raw_read(&self, region: usize, len: usize) -> Vec<u8> {
        let p = self.host(region);
        // SAFETY: inside the region's backing memory (incl. slack when len says so).
        (0..len).map(|o| unsafe { p.add(o).read_volatile() }).collect()
    }
    fn raw_write(&self, region: usize, off: usize, data: &[u8]) {
        let p = self.host(region);
        for (i, b) in data.iter().enumerate() {
            // SAFETY: inside the region's backing memory.
            unsafe { p.add(off + i).write_volatile(*b) };
        }
    }
    /// address of region byte `off` as far as alignment is concerned
    fn align_addr(&self, region: usize, off: usize) -> usize {
        (self.host(region) as usize).wrapping_add(off)
    }
}

impl Subject for MockMem {
    fn host(&self, region: usize) -> *mut u8 {
        self.regions[self.index_of[region]].host()
    }
    fn slack(&self, _region: usize) -> usize {
        MOCK_SLACK
    }
    fn kind(&self) -> &'static str {
        "mock"
    }
}

pub fn page_size() -> usize {
    4096
}

impl<B: Bitmap + 'static> Subject for GuestMemoryMmap<B> {
    fn host(&self, region: usize) -> *mut u8 {
        self.iter().nth(region).unwrap().as_ptr()
    }
    fn slack(&self, region: usize) -> usize {
        let l = self.iter().nth(region).unwrap().len() as usize;
        let ps = page_size();
        (l.div_ceil(ps) * ps - l).min(64)
    }
    fn kind(&self) -> &'static str {
        "mmap"
    }
}

pub fn build_mmap(layout: &Layout) -> Result<GuestMemoryMmap<()>, String> {
    let mut regions = Vec::new();
    for &(s, l) in &layout.regs {
        let r = GuestRegionMmap::<()>::from_range(GuestAddress(s), l as usize, None)
            .map_err(|e| format!("GuestRegionMmap::from_range(base {:#x}, size {}): {:?}", s, l, e))?;
        regions.push(r);
    }
    GuestMemoryMmap::from_regions(regions).map_err(|e| format!("from_regions({}): {:?}", layout.describe(), e))
}

/// Fill every region (and its slack) through the raw host pointer.
pub fn raw_fill<S: Subject>(m: &S, layout: &Layout, fill: impl Fn(usize, usize) -> u8, slack_byte: u8) {
    for (ri, &(_, l)) in layout.regs.iter().enumerate() {
        let data: Vec<u8> = (0..l as usize).map(|o| fill(ri, o)).collect();
        m.raw_write(ri, 0, &data);
        let sl = vec![slack_byte; m.slack(ri)];
        if !sl.is_empty() {
            m.raw_write(ri, l as usize, &sl);
        }
    }
}

/// Compare the raw contents of every region and its slack with the model.
pub fn raw_compare<S: Subject>(m: &S, model: &FlatModel, slack_byte: u8) -> Result<(), String> {
    for (ri, &(s, l)) in model.layout.regs.iter().enumerate() {
        let now = m.raw_read(ri, l as usize + m.slack(ri));
        for o in 0..l as usize {
            let got = now[o];
            let want = model.data[ri][o];
            if got != want {
                return Err(format!(
                    "guest byte at {:#x} (region {} offset {}) is {:#04x}, the flat model has {:#04x}",
                    s.wrapping_add(o as u64), ri, o, got, want
                ));
            }
        }
        for o in 0..m.slack(ri) {
            let got = now[l as usize + o];
            if got != slack_byte {
                return Err(format!(
                    "byte {} past the end of region {} ({:#x}+{}) was modified: {:#04x}",
                    o, ri, s, l, got
                ));
            }
        }
    }
    Ok(())
}

// ---------------------------------------------------------------------------------------------
// Canary-framed buffer for slice-level containers

pub const CANARY: usize = 64;
pub const CANARY_BYTE: u8 = 0xC7;

pub struct Framed {
    buf: Vec<u8>,
    off: usize,
    pub len: usize,
}

impl Framed {
    /// `len` usable bytes whose start address is `align_off` modulo 16.
    pub fn new(len: usize, align_off: usize) -> Self {
        let buf = vec![CANARY_BYTE; len + 2 * CANARY + 32];
        let base = buf.as_ptr() as usize + CANARY;
        let off = CANARY + ((16 - (base % 16)) % 16 + align_off % 16);
        Framed { buf, off, len }
    }
    pub fn ptr(&self) -> *mut u8 {
        // SAFETY: inside buf.
        unsafe { (self.buf.as_ptr() as *mut u8).add(self.off) }
    }
    pub fn fill(&mut self, f: impl Fn(usize) -> u8) {
        for i in 0..self.len {
            self.buf[self.off + i] = f(i);
        }
    }
    pub fn slice(&self) -> VolatileSlice<'_, ()> {
        // SAFETY: ptr..ptr+len is inside buf, which outlives the slice.
        unsafe { VolatileSlice::new(self.ptr(), self.len) }
    }
    pub fn contents(&self) -> Vec<u8> {
        (0..self.len)
            // SAFETY: inside buf.
            .map(|i| unsafe { self.ptr().add(i).read_volatile() })
            .collect()
    }
    pub fn canaries_ok(&self) -> Result<(), String> {
        let p = self.buf.as_ptr();
        for i in 0..self.buf.len() {
            if i >= self.off && i < self.off + self.len {
                continue;
            }
            // SAFETY: inside buf.
            let b = unsafe { p.add(i).read_volatile() };
            if b != CANARY_BYTE {
                return Err(format!(
                    "canary byte at container offset {} was overwritten ({:#04x})",
                    i as isize - self.off as isize,
                    b
                ));
            }
        }
        Ok(())
    }
}

pub fn hexs(b: &[u8]) -> String {
    let mut s = String::new();
    for (i, x) in b.iter().enumerate() {
        if i >= 24 {
            s.push_str("..");
            break;
        }
        s.push_str(&format!("{:02x}", x));
    }
    s
}

// ---------------------------------------------------------------------------------------------
// files

use std::fs::File;
use std::os::unix::io::FromRawFd;

pub fn memfd(size: u64) -> File {
    // SAFETY: plain syscall; the returned fd is owned by the File.
    let fd = unsafe { libc::memfd_create(b"vmv\0".as_ptr() as *const libc::c_char, 0) };
    assert!(fd >= 0, "memfd_create failed");
    // SAFETY: fd is a fresh valid descriptor.
    let f = unsafe { File::from_raw_fd(fd) };
    f.set_len(size).expect("ftruncate memfd");
    f
}

pub fn pread_all(f: &File, off: u64, n: usize) -> Vec<u8> {
    use std::os::unix::fs::FileExt;
    let mut v = vec![0u8; n];
    let mut done = 0;
    while done < n {
        match f.read_at(&mut v[done..], off + done as u64) {
            Ok(0) => break,
            Ok(k) => done += k,
            Err(_) => break,
        }
    }
    v.truncate(done);
    v
}

/// A `GuestMemoryMmap` whose regions are anonymous or backed by a shared memfd at a non-zero
/// page-aligned file offset (chosen by the tape).
pub struct MmapSubject<B: Bitmap + 'static = ()> {
    pub mem: GuestMemoryMmap<B>,
    pub files: Vec<Option<(File, u64)>>,
}

pub fn build_mmap_kinds<B: vm_memory::bitmap::NewBitmap + 'static>(
    layout: &Layout,
    t: &mut Tape,
    file_prob_num: u64,
) -> Result<MmapSubject<B>, String> {
    let mut regions = Vec::new();
    let mut files = Vec::new();
    for &(s, l) in &layout.regs {
        let fo = if file_prob_num > 0 && t.chance(file_prob_num, 4) {
            let off = 4096 * t.below(3);
            let f = memfd(off + (l.div_ceil(4096) * 4096));
            let dup = f.try_clone().map_err(|e| e.to_string())?;
            files.push(Some((dup, off)));
            Some(vm_memory::FileOffset::new(f, off))
        } else {
            files.push(None);
            None
        };
        let r = GuestRegionMmap::<B>::from_range(GuestAddress(s), l as usize, fo)
            .map_err(|e| format!("GuestRegionMmap::from_range(base {:#x}, size {}): {:?}", s, l, e))?;
        regions.push(r);
    }
    let mem = GuestMemoryMmap::from_regions(regions).map_err(|e| format!("from_regions({}): {:?}", layout.describe(), e))?;
    Ok(MmapSubject { mem, files })
}

pub fn files_compare(files: &[Option<(File, u64)>], model: &FlatModel) -> Result<(), String> {
    for (ri, f) in files.iter().enumerate() {
        if let Some((f, off)) = f {
            let want = &model.data[ri];
            let got = pread_all(f, *off, want.len());
            if &got != want {
                let pos = got.iter().zip(want.iter()).position(|(a, b)| a != b).unwrap_or(got.len().min(want.len()));
                return Err(format!("backing file of region {} differs from the model at file offset {}+{}", ri, off, pos));
            }
        }
    }
    Ok(())
}

// ---------------------------------------------------------------------------------------------
// chunking stream adapters: deliver / accept at most `chunk` bytes per call

use vm_memory::bitmap::BitmapSlice;
use vm_memory::VolatileMemoryError;

pub struct ChunkReader {
    pub data: Vec<u8>,
    pub pos: usize,
    pub chunk: usize,
    pub calls: usize,
}

impl ReadVolatile for ChunkReader {
    fn read_volatile<B: BitmapSlice>(&mut self, buf: &mut VolatileSlice<B>) -> Result<usize, VolatileMemoryError> {
        self.calls += 1;
        let n = buf.len().min(self.chunk).min(self.data.len() - self.pos);
        let sub = buf.subslice(0, n)?;
        sub.copy_from(&self.data[self.pos..self.pos + n]);
        self.pos += n;
        Ok(n)
    }
}

pub struct ChunkWriter {
    pub data: Vec<u8>,
    pub cap: usize,
    pub chunk: usize,
    pub calls: usize,
}

impl WriteVolatile for ChunkWriter {
    fn write_volatile<B: BitmapSlice>(&mut self, buf: &VolatileSlice<B>) -> Result<usize, VolatileMemoryError> {
        self.calls += 1;
        let n = buf.len().min(self.chunk).min(self.cap - self.data.len());
        let mut tmp = vec![0u8; n];
        let k = buf.subslice(0, n)?.copy_to(&mut tmp[..]);
        assert_eq!(k, n);
        self.data.extend_from_slice(&tmp);
        Ok(n)
    }
}
