//! C10 – adding or removing a region yields a new valid map and leaves the old one intact.
//! Oracle: each map is a sorted list of (start, len, tag); after every step every map created so
//! far and every removed-region handle is re-inspected (iteration order, lookups at every
//! boundary, tag bytes read through that map).

use crate::engine::*;
use crate::tape::Tape;
use crate::{ensure, note};
use std::sync::Arc;
use vm_memory::mmap::Error as MmapError;
use vm_memory::{Bytes, GuestAddress, GuestMemory, GuestMemoryMmap, GuestMemoryRegion, GuestRegionMmap};

type Reg = Arc<GuestRegionMmap<()>>;

#[derive(Clone, Debug, PartialEq)]
struct MR {
    start: u64,
    len: u64,
    tag: u8,
}

struct PoolEntry {
    r: Reg,
    m: MR,
}

fn mk_region(start: u64, len: u64, tag: u8) -> Result<Reg, String> {
    let r = GuestRegionMmap::<()>::from_range(GuestAddress(start), len as usize, None)
        .map_err(|e| format!("from_range({:#x}, {}): {:?}", start, len, e))?;
    // tag the first and last byte (and everything in between cheaply) through the host pointer
    let p = r.as_ptr();
    // SAFETY: inside the fresh mapping.
    unsafe { std::ptr::write_bytes(p, tag, len as usize) };
    Ok(Arc::new(r))
}

fn overlaps(a: &MR, b: &MR) -> bool {
    let ae = a.start as u128 + a.len as u128;
    let be = b.start as u128 + b.len as u128;
    (a.start as u128) < be && (b.start as u128) < ae
}

fn gen_geometry(t: &mut Tape, anchor: u64) -> (u64, u64) {
    let slot = t.below(6);
    let len = t.pick(&[1u64, 0xfff, 0x1000, 0x1001, 0x2000, 0x2001, 0x1800, 2]);
    let delta: i64 = t.pick(&[0i64, 0, 0, 1, -1, 0x800]);
    let start = (anchor as i128 + (slot as i128) * 0x1000 + delta as i128).max(0) as u128;
    let start = start.min(u64::MAX as u128 - len as u128 - 1) as u64; // keep start+len < 2^64
    (start, len)
}

fn err_name(e: &MmapError) -> &'static str {
    match e {
        MmapError::InvalidGuestRegion => "InvalidGuestRegion",
        MmapError::MmapRegion(_) => "MmapRegion",
        MmapError::NoMemoryRegion => "NoMemoryRegion",
        MmapError::MemoryRegionOverlap => "MemoryRegionOverlap",
        MmapError::UnsortedMemoryRegions => "UnsortedMemoryRegions",
    }
}

/// expected verdict of building a map from `list` (in that order)
fn expect_build(list: &[MR]) -> (bool, &'static [&'static str]) {
    if list.is_empty() {
        return (false, &["NoMemoryRegion"]);
    }
    let sorted = list.windows(2).all(|w| w[0].start <= w[1].start);
    let mut disjoint = true;
    for i in 0..list.len() {
        for j in i + 1..list.len() {
            if overlaps(&list[i], &list[j]) {
                disjoint = false;
            }
        }
    }
    match (sorted, disjoint) {
        (true, true) => (true, &[]),
        (false, true) => (false, &["UnsortedMemoryRegions"]),
        (true, false) => (false, &["MemoryRegionOverlap"]),
        (false, false) => (false, &["UnsortedMemoryRegions", "MemoryRegionOverlap"]),
    }
}

fn inspect(map: &GuestMemoryMmap<()>, model: &[MR], what: &str) -> Result<(), String> {
    let listed: Vec<(u64, u64)> = map.iter().map(|r| (r.start_addr().0, r.len())).collect();
    let want: Vec<(u64, u64)> = model.iter().map(|m| (m.start, m.len)).collect();
    ensure!(listed == want, "{}: iter() yields {:x?}, the model says {:x?}", what, listed, want);
    ensure!(map.num_regions() == model.len(), "{}: num_regions = {}, model {}", what, map.num_regions(), model.len());
    if let Some(top) = model.iter().map(|m| m.start + (m.len - 1)).max() {
        ensure!(map.last_addr().0 == top, "{}: last_addr() = {:#x}, the highest byte of the model's regions is {:#x}", what, map.last_addr().0, top);
    }
    for w in listed.windows(2) {
        ensure!(w[0].0 as u128 + w[0].1 as u128 <= w[1].0 as u128, "{}: regions {:x?} and {:x?} are not sorted/disjoint", what, w[0], w[1]);
    }
    for (i, m) in model.iter().enumerate() {
        let last = m.start + (m.len - 1);
        for a in [m.start, last] {
            let f = map.find_region(GuestAddress(a)).map(|r| (r.start_addr().0, r.len()));
            ensure!(f == Some((m.start, m.len)), "{}: find_region({:#x}) = {:x?}, want region {:x?}", what, a, f, (m.start, m.len));
            let b: u8 = map.read_obj(GuestAddress(a)).map_err(|e| format!("{}: read_obj({:#x}) failed: {:?}", what, a, e))?;
            ensure!(b == m.tag, "{}: byte at {:#x} read through this map is {:#04x}, the region's tag is {:#04x}", what, a, b, m.tag);
        }
        // neighbours that belong to no region of this map
        if m.start > 0 {
            let a = m.start - 1;
            let owned = model.iter().any(|o| a >= o.start && a - o.start < o.len);
            ensure!(map.find_region(GuestAddress(a)).is_some() == owned, "{}: find_region({:#x}) just before region {} disagrees with the model", what, a, i);
        }
        if let Some(a) = last.checked_add(1) {
            let owned = model.iter().any(|o| a >= o.start && a - o.start < o.len);
            ensure!(map.find_region(GuestAddress(a)).is_some() == owned, "{}: find_region({:#x}) just after region {} disagrees with the model", what, a, i);
        }
    }
    Ok(())
}

fn run(t: &mut Tape, cx: &mut Cx) -> Result<(), String> {
    let anchor = t.pick(&[0u64, 0x10000, 0xffff_ffff_ffff_0000 - 0x8000, 1u64 << 32]);
    note!(cx, "anchor {:#x}", anchor);
    let mut pool: Vec<PoolEntry> = Vec::new();
    let mut maps: Vec<(GuestMemoryMmap<()>, Vec<MR>)> = Vec::new();
    let mut handles: Vec<(Reg, MR)> = Vec::new();
    let mut next_tag = 1u8;
    // start with a few regions
    for _ in 0..(2 + t.idx(3)) {
        let (s, l) = gen_geometry(t, anchor);
        let tag = next_tag;
        next_tag = next_tag.wrapping_add(1).max(1);
        pool.push(PoolEntry { r: mk_region(s, l, tag)?, m: MR { start: s, len: l, tag } });
    }
    let nsteps = 1 + t.idx(20);
    for step in 0..nsteps {
        if t.exhausted() && step > 1 {
            break;
        }
        match t.below(9) {
            0 => {
                if pool.len() < 9 {
                    let (s, l) = gen_geometry(t, anchor);
                    let tag = next_tag;
                    next_tag = next_tag.wrapping_add(1).max(1);
                    note!(cx, "create r{} [{:#x}+{:#x}]", pool.len(), s, l);
                    pool.push(PoolEntry { r: mk_region(s, l, tag)?, m: MR { start: s, len: l, tag } });
                }
            }
            1 => {
                // creation around the top of the address space
                let len = t.pick(&[1u64, 0x1000, 0x1001]);
                let k = t.below(5) as i128 - 2; // base+size - 2^64 in -2..=2
                let base = ((1i128 << 64) + k - len as i128) as u128;
                if base <= u64::MAX as u128 {
                    let base = base as u64;
                    note!(cx, "new region base {:#x} size {:#x} (base+size = 2^64{:+})", base, len, k);
                    let r = GuestRegionMmap::<()>::from_range(GuestAddress(base), len as usize, None);
                    cx.nt("creation_at_top");
                    if k > 0 {
                        ensure!(matches!(&r, Err(MmapError::InvalidGuestRegion)), "region base {:#x} + size {:#x} exceeds the address space but creation returned {:?}", base, len, r.as_ref().map(|_| "Ok").map_err(err_name));
                    } else if k < 0 {
                        let r = r.map_err(|e| format!("region base {:#x} size {:#x} fits below 2^64 but creation failed: {}", base, len, err_name(&e)))?;
                        ensure!(r.start_addr().0 == base && r.len() == len && r.last_addr().0 == base + (len - 1), "created region reports {:#x}+{:#x}", r.start_addr().0, r.len());
                    } else {
                        cx.count("dontcare_region_end_exactly_2_64", 1);
                    }
                }
            }
            2 | 3 => {
                // build from a list of pool regions (subset, order and duplicates from the tape)
                let n = t.idx(5);
                let mut idxs = Vec::new();
                for _ in 0..n {
                    idxs.push(t.idx(pool.len()));
                }
                if t.flag() {
                    idxs.sort_by_key(|i| pool[*i].m.start);
                }
                let list: Vec<MR> = idxs.iter().map(|i| pool[*i].m.clone()).collect();
                let regs: Vec<Reg> = idxs.iter().map(|i| pool[*i].r.clone()).collect();
                let (ok, errs) = expect_build(&list);
                note!(cx, "from_arc_regions({:?}) expect {}", idxs, if ok { "Ok".to_string() } else { format!("{:?}", errs) });
                let r = GuestMemoryMmap::from_arc_regions(regs);
                match r {
                    Ok(m) => {
                        ensure!(ok, "from_arc_regions accepted {:x?} although the model expects {:?}", list, errs);
                        maps.push((m, list));
                    }
                    Err(e) => {
                        ensure!(!ok, "from_arc_regions refused the valid list {:x?} with {}", list, err_name(&e));
                        ensure!(errs.contains(&err_name(&e)), "from_arc_regions({:x?}) failed with {}, the documented error is one of {:?}", list, err_name(&e), errs);
                        cx.nt("build_refused");
                    }
                }
            }
            4 => {
                // from_ranges with fresh anonymous regions
                let n = t.idx(4);
                let mut ranges = Vec::new();
                for _ in 0..n {
                    ranges.push(gen_geometry(t, anchor));
                }
                if t.chance(2, 3) {
                    ranges.sort();
                }
                // sometimes one range cannot be turned into a region: its end exceeds the address space
                let mut bad = false;
                if !ranges.is_empty() && t.chance(1, 4) {
                    let i = t.idx(ranges.len());
                    let len = ranges[i].1;
                    if len >= 2 {
                        // start + len = 2^64 + k, 1 <= k <= min(3, len - 1)
                        let k = 1 + t.below(3.min(len - 1));
                        ranges[i].0 = u64::MAX - len + 1 + k;
                        bad = true;
                        cx.nt("range_beyond_address_space");
                    }
                }
                let list: Vec<MR> = ranges.iter().map(|&(s, l)| MR { start: s, len: l, tag: 0 }).collect();
                let (ok, errs) = expect_build(&list);
                note!(cx, "from_ranges({:x?}){}", ranges, if bad { " (one range ends beyond 2^64)" } else { "" });
                if bad {
                    let rr: Vec<(GuestAddress, usize)> = ranges.iter().map(|&(s, l)| (GuestAddress(s), l as usize)).collect();
                    let r = if t.flag() { GuestMemoryMmap::<()>::from_ranges(&rr) } else { GuestMemoryMmap::<()>::from_ranges_with_files(rr.iter().map(|&(a, l)| (a, l, None::<vm_memory::FileOffset>)).collect::<Vec<_>>()) };
                    match r {
                        Ok(m) => return Err(format!("from_ranges({:x?}) returned a map of {} regions although one range ends beyond the address space", ranges, m.num_regions())),
                        Err(e) => ensure!(err_name(&e) == "InvalidGuestRegion" || (!ok && errs.contains(&err_name(&e))), "from_ranges({:x?}) with a range beyond the address space failed with {}", ranges, err_name(&e)),
                    }
                    cx.nt("build_refused");
                    continue;
                }
                let rr: Vec<(GuestAddress, usize)> = ranges.iter().map(|&(s, l)| (GuestAddress(s), l as usize)).collect();
                match GuestMemoryMmap::<()>::from_ranges(&rr) {
                    Ok(m) => {
                        ensure!(ok, "from_ranges accepted {:x?} although the model expects {:?}", ranges, errs);
                        maps.push((m, list));
                    }
                    Err(e) => {
                        ensure!(!ok && errs.contains(&err_name(&e)), "from_ranges({:x?}) failed with {}, expected {}", ranges, err_name(&e), if ok { "Ok".into() } else { format!("{:?}", errs) });
                        cx.nt("build_refused");
                    }
                }
            }
            5 => {
                if !maps.is_empty() {
                    let mi = t.idx(maps.len());
                    let pi = t.idx(pool.len());
                    let r = &pool[pi];
                    let clash = maps[mi].1.iter().any(|m| overlaps(m, &r.m));
                    let touching = maps[mi].1.iter().any(|m| m.start as u128 + m.len as u128 == r.m.start as u128 || r.m.start as u128 + r.m.len as u128 == m.start as u128);
                    let one_byte = maps[mi].1.iter().any(|m| {
                        let ae = m.start as u128 + m.len as u128;
                        let be = r.m.start as u128 + r.m.len as u128;
                        ae == r.m.start as u128 + 1 || be == m.start as u128 + 1
                    });
                    note!(cx, "m{}.insert_region(r{} [{:#x}+{:#x}]) expect {}", mi, pi, r.m.start, r.m.len, if clash { "overlap" } else { "ok" });
                    if touching {
                        cx.nt("insert_adjacent");
                    }
                    if one_byte {
                        cx.nt("insert_overlap_by_one_byte");
                    }
                    if maps[mi].1.iter().any(|m| m.start == r.m.start) {
                        cx.nt("insert_duplicate_start");
                    }
                    match maps[mi].0.insert_region(r.r.clone()) {
                        Ok(nm) => {
                            ensure!(!clash, "insert_region accepted [{:#x}+{:#x}] which overlaps a region of {:x?}", r.m.start, r.m.len, maps[mi].1);
                            let mut model = maps[mi].1.clone();
                            model.push(r.m.clone());
                            model.sort_by_key(|m| m.start);
                            maps.push((nm, model));
                        }
                        Err(e) => {
                            ensure!(clash, "insert_region refused the disjoint region [{:#x}+{:#x}] into {:x?} with {}", r.m.start, r.m.len, maps[mi].1, err_name(&e));
                            ensure!(err_name(&e) == "MemoryRegionOverlap", "insert_region of an overlapping region failed with {}, documented: MemoryRegionOverlap", err_name(&e));
                        }
                    }
                }
            }
            6 => {
                if !maps.is_empty() {
                    let mi = t.idx(maps.len());
                    let model = maps[mi].1.clone();
                    let (base, size) = if model.is_empty() {
                        (t.below(0x4000), 1 + t.below(0x2000))
                    } else {
                        let m = &model[t.idx(model.len())];
                        match t.below(6) {
                            0 | 1 => (m.start, m.len),
                            2 => (m.start, m.len + 1),
                            3 => (m.start, m.len.saturating_sub(1)),
                            4 => (m.start + (m.len / 2).max(1).min(m.len - 1).max(if m.len > 1 { 1 } else { 0 }), m.len),
                            _ => (m.start.wrapping_add(0x1000), m.len),
                        }
                    };
                    let hit = model.iter().position(|m| m.start == base && m.len == size);
                    note!(cx, "m{}.remove_region({:#x}, {:#x}) expect {}", mi, base, size, if hit.is_some() { "ok" } else { "InvalidGuestRegion" });
                    if hit.is_none() && model.iter().any(|m| m.start == base || (base > m.start && base - m.start < m.len)) {
                        cx.nt("remove_near_miss");
                    }
                    match maps[mi].0.remove_region(GuestAddress(base), size) {
                        Ok((nm, h)) => {
                            let i = hit.ok_or_else(|| format!("remove_region({:#x},{:#x}) succeeded on {:x?} although no region matches exactly", base, size, model))?;
                            ensure!(h.start_addr().0 == base && h.len() == size, "remove_region returned the handle of {:#x}+{:#x}", h.start_addr().0, h.len());
                            let mut nmodel = model.clone();
                            let removed = nmodel.remove(i);
                            handles.push((h, removed));
                            maps.push((nm, nmodel));
                            if i + 2 < model.len() {
                                cx.nt("remove_not_among_last_two");
                            }
                        }
                        Err(e) => {
                            ensure!(hit.is_none(), "remove_region({:#x},{:#x}) refused an exact match in {:x?}: {}", base, size, model, err_name(&e));
                            ensure!(err_name(&e) == "InvalidGuestRegion", "remove_region without exact match failed with {}, documented: InvalidGuestRegion", err_name(&e));
                        }
                    }
                }
            }
            7 => {
                if !maps.is_empty() && maps.len() < 14 {
                    let mi = t.idx(maps.len());
                    note!(cx, "m{} = m{}.clone()", maps.len(), mi);
                    let c = maps[mi].0.clone();
                    let m = maps[mi].1.clone();
                    maps.push((c, m));
                }
            }
            _ => {
                if maps.len() > 1 {
                    let mi = t.idx(maps.len());
                    note!(cx, "drop m{}", mi);
                    maps.remove(mi);
                    cx.label("map_dropped");
                }
            }
        }
        if maps.len() >= 2 {
            cx.label("several_maps_alive");
        }
        for (i, (m, model)) in maps.iter().enumerate() {
            inspect(m, model, &format!("after step {} map m{}", step, i))?;
        }
        for (h, m) in &handles {
            ensure!(h.start_addr().0 == m.start && h.len() == m.len, "removed-region handle changed");
            // SAFETY: the handle keeps the mapping alive.
            let (b0, b1) = unsafe { (h.as_ptr().read_volatile(), h.as_ptr().add(m.len as usize - 1).read_volatile()) };
            ensure!(b0 == m.tag && b1 == m.tag, "removed-region handle {:#x}+{:#x} no longer reaches its memory (tag {:#04x}, read {:#04x}/{:#04x})", m.start, m.len, m.tag, b0, b1);
        }
    }
    Ok(())
}

pub fn property() -> Property {
    Property {
        id: "C10",
        rule: "a case = a pool of tagged regions (sizes 1 byte, page +-1, 2 pages +-1 ...; starts on a page grid +-1 so that adjacency, one-byte overlaps and duplicate starts are frequent; anchored at 0, 64 KiB, 4 GiB and just below 2^64) + a history of 1..20 steps over a growing list of maps: from_arc_regions/from_ranges with valid, empty, unsorted, overlapping and duplicate lists, insert_region into any earlier map, remove_region with exact / size+-1 / inner-address / absent arguments, creation with base+size in 2^64-2..2^64+2, clone, drop of a map; after every step every live map and every removed-region handle is re-inspected; non-trivial = adjacent / one-byte-overlapping / duplicate-start insert, near-miss remove, removal of a region that is not among the last two, a refused build, creation at the top; distinct = decoded (pool, history)",
        assumptions: &["creation with base+size exactly 2^64 is a don't-care (counted)", "when a list is both unsorted and overlapping either documented error is accepted"],
        subchecks: vec![SubCheck { name: "history", builds: &[Build::Std, Build::Xen], kind: Kind::Random { quick: 12_000, thorough: 500_000, max_words: 160 }, run }],
    }
}
