//! C11 – a memory-map snapshot stays whole and usable while the map is being replaced.
//!
//! Sequential histories over several handles (a sequential history with several handles is an
//! interleaving of several single-threaded clients at operation granularity) against a
//! generation model, and generated multi-threaded reader/updater programs judged by a
//! schedule-independent oracle (a failure is always real; silence is weak evidence).

use crate::engine::*;
use crate::tape::Tape;
use crate::{ensure, note};
use std::rc::Rc;
use std::sync::atomic::{AtomicBool, AtomicUsize, Ordering};
use std::sync::{Arc, Mutex, Weak};
use vm_memory::{
    Bytes, GuestAddress, GuestAddressSpace, GuestMemory, GuestMemoryAtomic, GuestMemoryLoadGuard, GuestMemoryMmap,
    GuestMemoryRegion, GuestRegionMmap,
};

type Map = GuestMemoryMmap<()>;
type Reg = Arc<GuestRegionMmap<()>>;

/// A generation = list of (start, tag); every region is one page whose bytes all equal the tag.
type Gen = Vec<(u64, u8)>;

fn mk_region(start: u64, tag: u8) -> Result<Reg, String> {
    // every third region carries the hugetlbfs hint (an attribute only; the mapping is one page)
    #[cfg(not(feature = "xen"))]
    let r = if tag % 3 == 0 {
        let mut m = vm_memory::MmapRegion::<()>::new(4096).map_err(|e| format!("{:?}", e))?;
        m.set_hugetlbfs(true);
        GuestRegionMmap::new(m, GuestAddress(start)).map_err(|e| format!("{:?}", e))?
    } else {
        GuestRegionMmap::<()>::from_range(GuestAddress(start), 4096, None).map_err(|e| format!("{:?}", e))?
    };
    #[cfg(feature = "xen")]
    let r = GuestRegionMmap::<()>::from_range(GuestAddress(start), 4096, None).map_err(|e| format!("{:?}", e))?;
    // SAFETY: fresh mapping of one page.
    unsafe { std::ptr::write_bytes(r.as_ptr(), tag, 4096) };
    Ok(Arc::new(r))
}

fn observe(m: &Map) -> Result<Gen, String> {
    let mut g = Vec::new();
    for r in m.iter() {
        let a = r.start_addr();
        let b0: u8 = m.read_obj(a).map_err(|e| format!("snapshot region {:#x} not readable: {:?}", a.0, e))?;
        let b1: u8 = m.read_obj(GuestAddress(a.0 + 4095)).map_err(|e| format!("snapshot region {:#x} not readable: {:?}", a.0, e))?;
        ensure!(b0 == b1, "region {:#x} reads two different tags {:#04x}/{:#04x}", a.0, b0, b1);
        g.push((a.0, b0));
    }
    Ok(g)
}

enum Snap {
    Guard(GuestMemoryLoadGuard<Map>),
    Owned(Arc<Map>),
}

impl Snap {
    fn map(&self) -> &Map {
        match self {
            Snap::Guard(g) => g,
            Snap::Owned(a) => a,
        }
    }
}

fn run_seq(t: &mut Tape, cx: &mut Cx) -> Result<(), String> {
    let mut next_tag = 1u8;
    let mut fresh_tag = || {
        let t = next_tag;
        next_tag = next_tag.wrapping_add(1).max(1);
        t
    };
    // generation 0
    let tag0 = fresh_tag();
    let mut regs: Vec<(Reg, u64, u8)> = vec![(mk_region(0x1000, tag0)?, 0x1000, tag0)];
    let m0 = Map::from_arc_regions(vec![regs[0].0.clone()]).map_err(|e| format!("{:?}", e))?;
    let mut gens: Vec<Gen> = vec![vec![(0x1000, tag0)]];
    let mut handles: Vec<GuestMemoryAtomic<Map>> = vec![GuestMemoryAtomic::new(m0)];
    let mut snaps: Vec<(Snap, usize)> = Vec::new();
    let mut weaks: Vec<(Weak<Map>, usize)> = Vec::new();
    {
        let a = handles[0].memory().into_inner();
        weaks.push((Arc::downgrade(&a), 0));
    }
    let nops = 1 + t.idx(40);
    for step in 0..nops {
        if t.exhausted() && step > 0 {
            break;
        }
        let cur = gens.len() - 1;
        match t.below(10) {
            0 => {
                if handles.len() < 4 {
                    let h = handles[t.idx(handles.len())].clone();
                    note!(cx, "h{} = clone handle", handles.len());
                    handles.push(h);
                }
            }
            1 | 2 => {
                let hi = t.idx(handles.len());
                let g = handles[hi].memory();
                let obs = observe(&g)?;
                note!(cx, "s{} = h{}.memory()", snaps.len(), hi);
                ensure!(obs == gens[cur], "snapshot taken through handle {} after {} replacement(s) shows {:x?}, the current map is {:x?}", hi, cur, obs, gens[cur]);
                if snaps.len() < 8 {
                    if t.flag() {
                        snaps.push((Snap::Guard(g), cur));
                    } else {
                        snaps.push((Snap::Owned(g.into_inner()), cur));
                    }
                }
            }
            3 => {
                if !snaps.is_empty() && snaps.len() < 8 {
                    let si = t.idx(snaps.len());
                    let gen = snaps[si].1;
                    let c = match &snaps[si].0 {
                        Snap::Guard(g) => Snap::Guard(g.clone()),
                        Snap::Owned(a) => Snap::Owned(a.clone()),
                    };
                    note!(cx, "s{} = s{}.clone()", snaps.len(), si);
                    let obs = observe(c.map())?;
                    ensure!(obs == gens[gen], "a clone of a snapshot of generation {} shows {:x?} instead of {:x?}", gen, obs, gens[gen]);
                    snaps.push((c, gen));
                }
            }
            4 => {
                if !snaps.is_empty() {
                    let si = t.idx(snaps.len());
                    note!(cx, "drop s{}", si);
                    snaps.remove(si);
                }
            }
            5 => {
                if handles.len() > 1 {
                    let hi = t.idx(handles.len());
                    note!(cx, "drop h{}", hi);
                    handles.remove(hi);
                }
            }
            6 => {
                // lock without replacing
                let hi = t.idx(handles.len());
                note!(cx, "h{}.lock() dropped without replace", hi);
                let g = handles[hi].lock().map_err(|_| "poisoned".to_string())?;
                drop(g);
            }
            7 => {
                // the trivial address spaces: &M, Rc<M>, Arc<M>
                let a = handles[t.idx(handles.len())].memory().into_inner();
                let by_ref: &Map = &a;
                let r1 = (&by_ref).memory();
                ensure!(std::ptr::eq(r1, by_ref), "<&M as GuestAddressSpace>::memory() is a different object");
                let a2 = a.memory();
                ensure!(Arc::ptr_eq(&a, &a2), "<Arc<M> as GuestAddressSpace>::memory() is a different object");
                let rc = Rc::new(Map::from_arc_regions(vec![regs[0].0.clone()]).map_err(|e| format!("{:?}", e))?);
                let rc2 = rc.memory();
                ensure!(Rc::ptr_eq(&rc, &rc2), "<Rc<M> as GuestAddressSpace>::memory() is a different object");
                note!(cx, "trivial address spaces");
            }
            _ => {
                // update through any handle: derive from the current map, publish
                let hi = t.idx(handles.len());
                let kind = t.below(4);
                let guard = handles[hi].lock().map_err(|_| "poisoned".to_string())?;
                let curmap = handles[hi].memory();
                let mut model = gens[cur].clone();
                let newmap = match kind {
                    0 | 1 => {
                        // add a fresh region at an address unique to the generation
                        let start = 0x10_0000 * (gens.len() as u64 + 1);
                        let tag = fresh_tag();
                        let r = mk_region(start, tag)?;
                        regs.push((r.clone(), start, tag));
                        model.push((start, tag));
                        model.sort();
                        note!(cx, "h{}: insert region {:#x} tag {} -> generation {}", hi, start, tag, gens.len());
                        curmap.insert_region(r).map_err(|e| format!("{:?}", e))?
                    }
                    2 if model.len() > 1 => {
                        let i = t.idx(model.len());
                        let (start, _) = model.remove(i);
                        note!(cx, "h{}: remove region {:#x} -> generation {}", hi, start, gens.len());
                        curmap.remove_region(GuestAddress(start), 4096).map_err(|e| format!("{:?}", e))?.0
                    }
                    _ => {
                        // same layout, new backing memory: a replacement that changes no address
                        let i = t.idx(model.len());
                        let (start, _) = model[i];
                        let tag = fresh_tag();
                        let r = mk_region(start, tag)?;
                        regs.push((r.clone(), start, tag));
                        model[i] = (start, tag);
                        note!(cx, "h{}: re-back region {:#x} with new memory tag {} -> generation {}", hi, start, tag, gens.len());
                        cx.nt("same_layout_replacement");
                        let (without, _) = curmap.remove_region(GuestAddress(start), 4096).map_err(|e| format!("{:?}", e))?;
                        if without.num_regions() == 0 {
                            Map::from_arc_regions(vec![r]).map_err(|e| format!("{:?}", e))?
                        } else {
                            without.insert_region(r).map_err(|e| format!("{:?}", e))?
                        }
                    }
                };
                drop(curmap);
                guard.replace(newmap);
                gens.push(model);
                let a = handles[hi].memory().into_inner();
                weaks.push((Arc::downgrade(&a), gens.len() - 1));
                drop(a);
                if !snaps.is_empty() {
                    cx.nt("snapshot_outlives_replace");
                }
                if handles.len() > 1 {
                    cx.nt("replace_with_several_handles");
                }
            }
        }
        // every live snapshot keeps showing exactly its generation
        for (i, (s, gen)) in snaps.iter().enumerate() {
            let obs = observe(s.map()).map_err(|e| format!("after step {}: snapshot s{} of generation {}: {}", step, i, gen, e))?;
            ensure!(obs == gens[*gen], "after step {}: snapshot s{} taken at generation {} now shows {:x?}, that generation is {:x?} (current generation {})", step, i, gen, obs, gens[*gen], gens.len() - 1);
        }
        // every handle shows the newest generation
        let cur = gens.len() - 1;
        for (i, h) in handles.iter().enumerate() {
            let obs = observe(&h.memory())?;
            ensure!(obs == gens[cur], "after step {}: handle h{} shows {:x?}, the newest generation {} is {:x?}", step, i, obs, cur, gens[cur]);
        }
        // liveness of old generations
        for (w, gen) in &weaks {
            let reachable = *gen == cur || snaps.iter().any(|(_, g)| g == gen);
            let alive = w.upgrade().is_some();
            if reachable {
                ensure!(alive, "after step {}: generation {} is still reachable but its map object is gone", step, gen);
            } else {
                ensure!(!alive, "after step {}: generation {} was replaced and has no snapshot left, but its map is still alive (leak)", step, gen);
            }
        }
    }
    if gens.len() >= 3 {
        cx.label("three_or_more_generations");
    }
    Ok(())
}

// ---------------------------------------------------------------------------------------------
// concurrent stress with a schedule-independent oracle

fn run_stress(t: &mut Tape, cx: &mut Cx) -> Result<(), String> {
    let nreaders = 2 + t.idx(2);
    let nupdaters = 2;
    let updates_each = 3 + t.idx(if cx.tier == Tier::Quick { 6 } else { 30 });
    let reader_pause = t.idx(4);
    let updater_pause = t.idx(4);
    let use_clone_handles = t.flag();
    note!(cx, "{} readers, {} updaters x {} updates, pauses {}/{} {}", nreaders, nupdaters, updates_each, reader_pause, updater_pause, if use_clone_handles { "cloned handles" } else { "shared handle" });
    let base_tag = 1u8;
    let m0 = Map::from_arc_regions(vec![mk_region(0x1000, base_tag)?]).map_err(|e| format!("{:?}", e))?;
    let atomic = GuestMemoryAtomic::new(m0);
    let published: Mutex<Vec<Gen>> = Mutex::new(vec![vec![(0x1000, base_tag)]]);
    let completed = AtomicUsize::new(0);
    let done = AtomicBool::new(false);
    let errors: Mutex<Vec<String>> = Mutex::new(Vec::new());
    let observations: Mutex<Vec<Vec<(usize, Gen)>>> = Mutex::new(Vec::new());
    let kept: Mutex<Vec<(Arc<Map>, Gen)>> = Mutex::new(Vec::new());
    std::thread::scope(|sc| {
        for u in 0..nupdaters {
            let handle = if use_clone_handles { atomic.clone() } else { atomic.clone() };
            let published = &published;
            let completed = &completed;
            let errors = &errors;
            sc.spawn(move || {
                for k in 0..updates_each {
                    let start = 0x100_0000 * (u as u64 + 1) + 0x1000 * (k as u64 + 1);
                    let tag = (16 * (u as u8 + 1)).wrapping_add(k as u8) | 1;
                    let r = match mk_region(start, tag) {
                        Ok(r) => r,
                        Err(e) => {
                            errors.lock().unwrap().push(e);
                            return;
                        }
                    };
                    let guard = handle.lock().unwrap();
                    let cur = handle.memory();
                    let newmap = match cur.insert_region(r) {
                        Ok(m) => m,
                        Err(e) => {
                            errors.lock().unwrap().push(format!("updater {}: insert_region: {:?}", u, e));
                            return;
                        }
                    };
                    let mut gen = match observe(&cur) {
                        Ok(g) => g,
                        Err(e) => {
                            errors.lock().unwrap().push(e);
                            return;
                        }
                    };
                    gen.push((start, tag));
                    gen.sort();
                    drop(cur);
                    for _ in 0..updater_pause {
                        std::thread::yield_now();
                    }
                    published.lock().unwrap().push(gen);
                    guard.replace(newmap);
                    completed.fetch_add(1, Ordering::SeqCst);
                }
            });
        }
        for _ in 0..nreaders {
            let handle = atomic.clone();
            let done = &done;
            let completed = &completed;
            let observations = &observations;
            let errors = &errors;
            let kept = &kept;
            sc.spawn(move || {
                let mut obs = Vec::new();
                let mut i = 0usize;
                while !done.load(Ordering::SeqCst) && obs.len() < 20_000 {
                    let c = completed.load(Ordering::SeqCst);
                    let snap = handle.memory();
                    match observe(&snap) {
                        Ok(g) => {
                            if i % 7 == 0 && kept.lock().unwrap().len() < 32 {
                                let owned = snap.clone().into_inner();
                                kept.lock().unwrap().push((owned, g.clone()));
                            }
                            obs.push((c, g));
                        }
                        Err(e) => {
                            errors.lock().unwrap().push(format!("reader: {}", e));
                            break;
                        }
                    }
                    for _ in 0..reader_pause {
                        std::thread::yield_now();
                    }
                    i += 1;
                }
                observations.lock().unwrap().push(obs);
            });
        }
        // wait for the updaters, then stop the readers
        let total = nupdaters * updates_each;
        let t0 = std::time::Instant::now();
        // no time limit here: a stuck updater is the driver watchdog's business, not a verdict
        let _ = t0;
        while completed.load(Ordering::SeqCst) < total && errors.lock().unwrap().is_empty() {
            std::thread::yield_now();
        }
        done.store(true, Ordering::SeqCst);
    });
    let errs = errors.into_inner().unwrap();
    ensure!(errs.is_empty(), "{}", errs.join("; "));
    let published = published.into_inner().unwrap();
    let total = nupdaters * updates_each;
    ensure!(completed.load(Ordering::SeqCst) == total, "HARNESS-PANIC: updaters did not finish");
    // the chain: every generation extends its predecessor by exactly one region (updaters excluded one another)
    for w in published.windows(2) {
        let extra: Vec<_> = w[1].iter().filter(|x| !w[0].contains(x)).collect();
        ensure!(w[1].len() == w[0].len() + 1 && extra.len() == 1, "two updaters derived their maps from the same generation (lost update): {:x?} -> {:x?}", w[0], w[1]);
    }
    // no lost update: the final map contains every inserted region
    let fin = observe(&atomic.memory())?;
    ensure!(fin.len() == 1 + total, "the final map has {} regions, {} replacements each added one (a replacement was lost)", fin.len(), total);
    ensure!(&fin == published.last().unwrap(), "the final map {:x?} is not the last published generation {:x?}", fin, published.last().unwrap());
    // readers: each observation is one complete published generation, never going backwards, and at least as new as what had completed
    let mut multi = false;
    for obs in observations.into_inner().unwrap() {
        let mut last = 0usize;
        let mut distinct = 0;
        for (c, g) in obs {
            let idx = published.iter().position(|p| *p == g).ok_or_else(|| format!("a reader observed {:x?}, which is not any published generation (mixture of two maps?)", g))?;
            ensure!(idx >= last, "a reader observed generation {} after generation {}", idx, last);
            ensure!(idx >= c, "a reader saw {} completed replacements and then took a snapshot of generation {}", c, idx);
            if idx != last {
                distinct += 1;
            }
            last = idx;
        }
        if distinct >= 1 {
            multi = true;
        }
    }
    for (m, g) in kept.into_inner().unwrap() {
        let now = observe(&m)?;
        ensure!(now == g, "an owned snapshot changed from {:x?} to {:x?}", g, now);
    }
    if multi {
        cx.nt("reader_saw_several_generations");
    } else {
        cx.label("reader_saw_one_generation");
    }
    Ok(())
}

/// Update-lock histories: a few steps on the update path (a complete update, a lock that is given
/// up without replacing, an updater that dies while it holds the lock, a cloned handle), then one
/// updater holds the lock while a second one, on another thread and another handle, asks for it.
/// The second one must not get it before the first has published and released, and afterwards
/// both replacements must be in the published map. (A second updater seen inside the lock is a
/// violation whenever it is seen; the short wait only gives a wrong implementation the chance to
/// show it. An updater that never gets the lock hangs the case, which the driver attributes.)
fn run_lock_hist(t: &mut Tape, cx: &mut Cx) -> Result<(), String> {
    use vm_memory::atomic::GuestMemoryExclusiveGuard;
    let n = t.below(4) as usize;
    let steps: Vec<u64> = (0..n).map(|_| t.below(5)).collect();
    // one handle only, shared by reference, unless a step clones it
    let mut handles = vec![GuestMemoryAtomic::new(Map::from_arc_regions(vec![mk_region(0x1000, 1)?]).map_err(|e| format!("{:?}", e))?)];
    let mut expected: Vec<u64> = vec![0x1000];
    let mut next = 0x10_0000u64;
    fn take(h: &GuestMemoryAtomic<Map>) -> GuestMemoryExclusiveGuard<'_, Map> {
        match h.lock() {
            Ok(g) => g,
            // a poisoned lock still hands out the guard
            Err(p) => p.into_inner(),
        }
    }
    let starts = |h: &GuestMemoryAtomic<Map>| -> Vec<u64> { h.memory().iter().map(|r| r.start_addr().0).collect() };
    let names = ["update", "lock and give up", "updater dies holding the lock", "clone handle", "publish the empty map"];
    note!(cx, "steps {:?}", steps.iter().map(|s| names[*s as usize]).collect::<Vec<_>>());
    for (i, s) in steps.iter().enumerate() {
        let hi = (i + *s as usize) % handles.len();
        match s {
            0 => {
                let h = &handles[hi];
                let g = take(h);
                let nm = h.memory().insert_region(mk_region(next, 2 + i as u8)?).map_err(|e| format!("{:?}", e))?;
                g.replace(nm);
                expected.push(next);
                next += 0x10_0000;
            }
            1 => {
                let g = take(&handles[hi]);
                drop(g);
                cx.nt("lock_given_up");
            }
            2 => {
                let h = &handles[hi];
                let died = std::thread::scope(|sc| {
                    sc.spawn(move || {
                        let _g = take(h);
                        panic!("updater dies while holding the update lock");
                    })
                    .join()
                    .is_err()
                });
                ensure!(died, "HARNESS-PANIC: the dying updater did not die");
                cx.nt("updater_died_holding_the_lock");
            }
            4 => {
                // a map without regions is a legitimate map (e.g. after the last region was removed)
                let h = &handles[hi];
                let g = take(h);
                g.replace(Map::new());
                expected.clear();
                cx.nt("empty_map_published");
            }
            _ => {
                let c = handles[hi].clone();
                handles.push(c);
            }
        }
        ensure!(starts(&handles[hi]) == expected, "after step {} ({}) the published map lists {:x?}, expected {:x?}", i, names[*s as usize], starts(&handles[hi]), expected);
    }
    if handles.len() == 1 {
        cx.nt("single_handle_shared_by_reference");
    }
    // exclusion
    let ha = &handles[0];
    let hb = &handles[handles.len() - 1];
    let (ra, rb) = (mk_region(next, 0x71)?, mk_region(next + 0x10_0000, 0x72)?);
    let step_names: Vec<&str> = steps.iter().map(|s| names[*s as usize]).collect();
    std::thread::scope(|sc| -> Result<(), String> {
        let g = take(ha);
        let (tx, rx) = std::sync::mpsc::channel::<()>();
        let b = sc.spawn(move || -> Result<(), String> {
            let g2 = take(hb);
            let _ = tx.send(());
            let nm = hb.memory().insert_region(rb).map_err(|e| format!("second updater: {:?}", e))?;
            g2.replace(nm);
            Ok(())
        });
        let inside = rx.recv_timeout(std::time::Duration::from_millis(20)).is_ok();
        let verdict = if inside { Err(format!("a second updater obtained the update lock while the first one still holds it (after steps {:?}, {} handle(s))", step_names, handles.len())) } else { Ok(()) };
        let nm = ha.memory().insert_region(ra).map_err(|e| format!("first updater: {:?}", e))?;
        g.replace(nm);
        let joined = b.join().map_err(|_| "the second updater panicked".to_string())?;
        verdict?;
        joined
    })?;
    expected.push(next);
    expected.push(next + 0x10_0000);
    ensure!(starts(ha) == expected, "after both updaters the published map lists {:x?}, expected {:x?}: a replacement was lost", starts(ha), expected);
    cx.nt("two_updaters");
    Ok(())
}

fn gen_lock_hist(_t: Tier) -> Box<dyn Iterator<Item = Vec<u64>>> {
    let mut v: Vec<Vec<u64>> = vec![vec![0]];
    for a in 0..5u64 {
        v.push(vec![1, a]);
        for b in 0..5u64 {
            v.push(vec![2, a, b]);
            for c in 0..5u64 {
                v.push(vec![3, a, b, c]);
            }
        }
    }
    Box::new(v.into_iter())
}

pub fn property() -> Property {
    Property {
        id: "C11",
        rule: "sequential: a case = one GuestMemoryAtomic<GuestMemoryMmap> with up to 4 cloned handles and a history of 1..40 operations (clone handle, memory(), clone guard, into_inner, drop snapshot/handle in any order, lock without replace, update = lock -> derive from memory() by inserting a region / removing one / re-backing a region with new memory at the same address -> replace, trivial address spaces &M/Rc/Arc); after every step every live snapshot must show exactly the generation it was taken at (region list and tag bytes), every handle the newest generation, and Weak pointers to old generations must be alive exactly while reachable. concurrent: generated programs for 2..3 readers and 2 updaters on real threads with generated pauses, judged schedule-independently (each observation is one published generation, never backwards, at least as new as the completed counter read before it; generations form a chain; nothing lost). non-trivial = a snapshot that outlives a replace, replace with several handles, same-layout replacement, a reader that saw several generations; distinct = decoded history/program",
        assumptions: &["interleavings inside arc-swap and Mutex are not owned by the harness; the concurrent half is sampled by stress with an oracle that cannot false-alarm"],
        subchecks: vec![
            SubCheck { name: "sequential", builds: &[Build::Std], kind: Kind::Random { quick: 12_000, thorough: 400_000, max_words: 100 }, run: run_seq },
            SubCheck { name: "stress", builds: &[Build::Plain], kind: Kind::Random { quick: 200, thorough: 6_000, max_words: 12 }, run: run_stress },
            SubCheck { name: "lock_histories", builds: &[Build::Std, Build::Plain], kind: Kind::Exhaustive { gen: gen_lock_hist }, run: run_lock_hist },
        ],
    }
}
