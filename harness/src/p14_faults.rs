//! C14 – stream transfers lose or duplicate nothing under short I/O, EINTR and errors.
//! Generator: fault scripts for a harness-implemented stream. Oracle: conservation invariants
//! over the stream's log and the memory before/after.

use crate::common::*;
use crate::engine::*;
use crate::p03_flat::{classify, E};
use crate::tape::Tape;
use crate::{ensure, note};
use std::io::ErrorKind;
use vm_memory::bitmap::BitmapSlice;
use vm_memory::guest_memory::Error as GmError;
use vm_memory::volatile_memory::Error as VmError;
use vm_memory::{Bytes, GuestAddress, GuestMemory, MemoryRegionAddress, ReadVolatile, VolatileMemoryError, VolatileSlice, WriteVolatile};

#[derive(Clone, Copy, Debug, PartialEq)]
enum Step {
    Full,
    Short(usize),
    Zero,
    Interrupted,
    Error(ErrorKind),
}

const HARD: [ErrorKind; 4] = [ErrorKind::Other, ErrorKind::BrokenPipe, ErrorKind::WouldBlock, ErrorKind::PermissionDenied];

#[derive(Debug, Clone, PartialEq)]
enum Outcome {
    Moved(usize),
    Interrupted,
    Hard(ErrorKind),
}

struct Scripted {
    script: Vec<Step>,
    tail_full: bool,
    pos: usize,
    /// (requested, outcome)
    log: Vec<(usize, Outcome)>,
    /// bytes accepted by the writer
    accepted: Vec<u8>,
    moved: usize,
}

fn stream_byte(p: usize) -> u8 {
    (p as u8).wrapping_mul(31).wrapping_add((p >> 8) as u8).wrapping_add(0x40) | 1
}

impl Scripted {
    fn next_step(&mut self) -> Step {
        let s = self.script.get(self.pos).copied().unwrap_or(if self.tail_full { Step::Full } else { Step::Zero });
        self.pos += 1;
        s
    }
    fn amount(step: Step, req: usize) -> Result<usize, Outcome> {
        match step {
            Step::Full => Ok(req),
            Step::Short(k) => Ok(k.max(1).min(req)),
            Step::Zero => Ok(0),
            Step::Interrupted => Err(Outcome::Interrupted),
            Step::Error(k) => Err(Outcome::Hard(k)),
        }
    }
}

impl ReadVolatile for Scripted {
    fn read_volatile<B: BitmapSlice>(&mut self, buf: &mut VolatileSlice<B>) -> Result<usize, VolatileMemoryError> {
        let req = buf.len();
        let step = self.next_step();
        match Scripted::amount(step, req) {
            Ok(n) => {
                let data: Vec<u8> = (0..n).map(|i| stream_byte(self.moved + i)).collect();
                buf.subslice(0, n)?.copy_from(&data[..]);
                self.moved += n;
                self.log.push((req, Outcome::Moved(n)));
                Ok(n)
            }
            Err(o) => {
                self.log.push((req, o.clone()));
                let kind = match o {
                    Outcome::Interrupted => ErrorKind::Interrupted,
                    Outcome::Hard(k) => k,
                    _ => unreachable!(),
                };
                Err(VolatileMemoryError::IOError(std::io::Error::new(kind, "scripted")))
            }
        }
    }
}

impl WriteVolatile for Scripted {
    fn write_volatile<B: BitmapSlice>(&mut self, buf: &VolatileSlice<B>) -> Result<usize, VolatileMemoryError> {
        let req = buf.len();
        let step = self.next_step();
        match Scripted::amount(step, req) {
            Ok(n) => {
                let mut tmp = vec![0u8; n];
                let k = buf.subslice(0, n)?.copy_to(&mut tmp[..]);
                assert_eq!(k, n);
                self.accepted.extend_from_slice(&tmp);
                self.moved += n;
                self.log.push((req, Outcome::Moved(n)));
                Ok(n)
            }
            Err(o) => {
                self.log.push((req, o.clone()));
                let kind = match o {
                    Outcome::Interrupted => ErrorKind::Interrupted,
                    Outcome::Hard(k) => k,
                    _ => unreachable!(),
                };
                Err(VolatileMemoryError::IOError(std::io::Error::new(kind, "scripted")))
            }
        }
    }
}

fn gen_script(t: &mut Tape, cx: &mut Cx) -> Scripted {
    let n = t.idx(11);
    let mut script = Vec::new();
    for _ in 0..n {
        let st = match t.below(10) {
            0..=2 => Step::Full,
            3 | 4 => Step::Short(1 + t.idx(9)),
            5 => Step::Zero,
            6 | 7 => Step::Interrupted,
            8 => {
                // a burst of interruptions
                for _ in 0..t.idx(5) {
                    script.push(Step::Interrupted);
                }
                Step::Interrupted
            }
            _ => Step::Error(t.pick(&HARD)),
        };
        script.push(st);
    }
    let tail_full = t.flag();
    if script.iter().any(|s| matches!(s, Step::Interrupted)) {
        cx.label("has_eintr");
    }
    if script.iter().any(|s| matches!(s, Step::Short(_))) {
        cx.label("has_short");
    }
    Scripted { script, tail_full, pos: 0, log: Vec::new(), accepted: Vec::new(), moved: 0 }
}

#[derive(Debug)]
enum Res {
    Count(usize),
    Unit,
    Err(E, String),
}

fn vm_to_e(e: &VmError) -> E {
    match e {
        VmError::IOError(e) => E::Io(e.kind()),
        VmError::PartialBuffer { expected, completed } => E::Partial(*expected, *completed),
        VmError::OutOfBounds { .. } | VmError::Overflow { .. } => E::Backend,
        other => E::Other(format!("{:?}", other)),
    }
}

/// The invariants shared by all levels.
#[allow(clippy::too_many_arguments)]
fn judge(
    what: &str,
    s: &Scripted,
    res: &Res,
    exact: bool,
    reading: bool,
    count: usize,
    // room: bytes that can be transferred at most (min(count, container room / mapped run))
    room: usize,
    start_valid: bool,
    guest_level: bool,
    cx: &mut Cx,
) -> Result<(), String> {
    let d = s.moved;
    let hard = s.log.iter().position(|(_, o)| matches!(o, Outcome::Hard(_)));
    let zero_seen = s.log.iter().any(|(r, o)| *r > 0 && *o == Outcome::Moved(0));
    // (1) an interruption is never the result
    if let Res::Err(E::Io(ErrorKind::Interrupted), _) = res {
        return Err(format!("{}: the call reported the interruption instead of retrying it (log {:?})", what, s.log));
    }
    // (2) nothing happens after a hard error, and it is reported
    if let Some(h) = hard {
        ensure!(h == s.log.len() - 1, "{}: the stream was called again after a hard error (log {:?})", what, s.log);
        let k = match &s.log[h].1 {
            Outcome::Hard(k) => *k,
            _ => unreachable!(),
        };
        ensure!(matches!(res, Res::Err(E::Io(kk), _) if *kk == k), "{}: the stream failed with {:?} but the call returned {:?} (log {:?})", what, k, res, s.log);
        cx.nt(if d > 0 { "hard_error_after_partial_progress" } else { "hard_error_first" });
    }
    // (6) never asked for more than what is left
    let mut done = 0usize;
    for (req, o) in &s.log {
        ensure!(*req <= room.saturating_sub(done), "{}: the stream was asked for {} bytes although only {} of the {} transferable bytes were left (log {:?})", what, req, room.saturating_sub(done), room, s.log);
        if let Outcome::Moved(n) = o {
            done += n;
        }
    }
    ensure!(d <= room, "{}: {} bytes moved but only {} could be", what, d, room);
    if !start_valid {
        ensure!(s.log.is_empty(), "{}: the stream was used although the start address is invalid", what);
        ensure!(matches!(res, Res::Err(..)), "{}: invalid start address accepted", what);
        return Ok(());
    }
    match res {
        Res::Count(n) => {
            ensure!(!exact, "harness: count result for exact form");
            // (5)
            ensure!(*n == d, "{}: returned Ok({}) but {} bytes were actually moved (log {:?})", what, n, d, s.log);
            if guest_level && *n < room {
                if reading {
                    ensure!(zero_seen, "{}: the guest-level transfer stopped after {} of {} bytes although the stream never signalled end-of-stream (log {:?})", what, n, room, s.log);
                } else {
                    return Err(format!("{}: the guest-level write reported Ok({}) of {} transferable bytes (log {:?})", what, n, room, s.log));
                }
            }
        }
        Res::Unit => {
            ensure!(exact, "harness: unit result for up-to form");
            // (4)
            ensure!(d == count, "{}: the exact form reported success but moved {} of {} bytes (log {:?})", what, d, count, s.log);
        }
        Res::Err(e, raw) => {
            if exact {
                ensure!(d < count || hard.is_some(), "{}: the exact form failed ({}) although all {} bytes were moved (log {:?})", what, raw, count, s.log);
                if hard.is_none() {
                    // shortfall: end-of-stream, or the range does not fit
                    match e {
                        E::Io(ErrorKind::UnexpectedEof) if reading => ensure!(zero_seen, "{}: UnexpectedEof without an end-of-stream from the reader (log {:?})", what, s.log),
                        E::Io(ErrorKind::WriteZero) if !reading => ensure!(zero_seen, "{}: WriteZero without a zero-length write by the sink (log {:?})", what, s.log),
                        E::Partial(exp, comp) => {
                            ensure!(guest_level && *exp == count && *comp == d, "{}: PartialBuffer{{expected:{},completed:{}}} but count {} and {} bytes moved (log {:?})", what, exp, comp, count, d, s.log);
                        }
                        E::Backend | E::InvalidAddr => ensure!(s.log.is_empty() && room < count, "{}: range error {} after the stream was used, or for a range that fits (log {:?})", what, raw, s.log),
                        other => return Err(format!("{}: unexpected error {:?} for a shortfall (log {:?})", what, other, s.log)),
                    }
                    cx.nt("exact_shortfall");
                }
            } else if hard.is_none() {
                // an up-to form may only fail without a hard error when the sink refused to make progress
                ensure!(
                    matches!(e, E::Io(ErrorKind::WriteZero)) && !reading && zero_seen,
                    "{}: the up-to form failed with {} although the stream reported no error (log {:?})", what, raw, s.log
                );
            }
        }
    }
    if s.log.iter().filter(|(_, o)| *o == Outcome::Interrupted).count() >= 2 {
        cx.nt("repeated_eintr");
    }
    if s.log.iter().any(|(r, o)| matches!(o, Outcome::Moved(n) if *n > 0 && n < r)) {
        cx.nt("short_transfer_happened");
    }
    Ok(())
}

fn run_slice(t: &mut Tape, cx: &mut Cx) -> Result<(), String> {
    let size = 1 + t.idx(64);
    let mut fr = Framed::new(size, t.idx(16));
    fr.fill(|i| (i as u8).wrapping_mul(5).wrapping_add(2) & 0xFE); // even bytes: distinguishable from stream bytes (odd)
    let before = fr.contents();
    let addr = match t.below(6) {
        0 => size,
        1 => size + 1 + t.idx(3),
        _ => t.idx(size + 1),
    };
    let rem = size.saturating_sub(addr);
    let count = match t.below(5) {
        0 => rem,
        1 => rem + 1 + t.idx(3),
        2 => rem.saturating_sub(1 + t.idx(3)),
        _ => t.idx(rem + 2),
    };
    let mut s = gen_script(t, cx);
    let op = t.below(4);
    let reading = op < 2;
    let exact = op % 2 == 1;
    let what = format!("slice({}).{}(@ {}, count {})", size, ["read_volatile_from", "read_exact_volatile_from", "write_volatile_to", "write_all_volatile_to"][op as usize], addr, count);
    note!(cx, "{} script {:?} tail {}", what, s.script, if s.tail_full { "Full" } else { "Zero" });
    cx.label("slice_level");
    let vs = fr.slice();
    let res = match op {
        0 => vs.read_volatile_from(addr, &mut s, count).map(Res::Count),
        1 => vs.read_exact_volatile_from(addr, &mut s, count).map(|_| Res::Unit),
        2 => vs.write_volatile_to(addr, &mut s, count).map(Res::Count),
        _ => vs.write_all_volatile_to(addr, &mut s, count).map(|_| Res::Unit),
    }
    .unwrap_or_else(|e| Res::Err(vm_to_e(&e), format!("{:?}", e)));
    // exact forms need the whole range to fit; up-to forms need addr <= size
    let (start_valid, room) = if exact { (addr as u128 + count as u128 <= size as u128, count) } else { (addr <= size, count.min(rem)) };
    let room = if start_valid { room } else { 0 };
    judge(&what, &s, &res, exact, reading, count, room, start_valid, false, cx)?;
    // (3) conservation
    let after = fr.contents();
    if reading {
        for i in 0..size {
            let want = if i >= addr && i < addr + s.moved { stream_byte(i - addr) } else { before[i] };
            ensure!(after[i] == want, "{}: byte {} is {:#04x}, expected {:#04x} ({} stream bytes delivered; log {:?})", what, i, after[i], want, s.moved, s.log);
        }
    } else {
        ensure!(after == before, "{}: a transfer out of memory modified memory", what);
        ensure!(s.accepted[..] == before[addr.min(size)..addr.min(size) + s.moved], "{}: the sink accepted {} but the guest bytes are {}", what, hexs(&s.accepted), hexs(&before[addr.min(size)..addr.min(size) + s.moved]));
    }
    fr.canaries_ok()
}

fn run_guest(t: &mut Tape, cx: &mut Cx) -> Result<(), String> {
    // two adjacent regions followed by a hole (and sometimes a third region after the hole)
    let l0 = 1 + t.below(20);
    let l1 = 1 + t.below(20);
    let base = t.pick(&[0u64, 0x1000, 0xffff_ffff_ffff_f000]);
    let mut regs = vec![(base, l0), (base + l0, l1)];
    if t.flag() {
        regs.push((base + l0 + l1 + 1 + t.below(8), 4));
    }
    let lay = Layout { regs };
    let mem = build_mmap(&lay)?;
    let fill = |ri: usize, o: usize| ((ri * 64 + o * 2) as u8) & 0xFE;
    raw_fill(&mem, &lay, fill, 0x5C);
    let model = FlatModel::new(lay.clone(), fill);
    let region_level = t.chance(1, 4);
    let a = match t.below(5) {
        0 => base + l0 - 1,
        1 => base + l0,
        2 => base + l0 + l1,
        3 => base + l0 + l1 - 1,
        _ => base + t.below(l0 + l1 + 2),
    };
    let run = lay.run(a) as usize;
    let count = match t.below(6) {
        0 => run,
        1 => run + 1 + t.idx(4),
        2 => run.saturating_sub(1 + t.idx(3)),
        3 => ((base + l0).saturating_sub(a)) as usize, // ends exactly at the region boundary
        _ => t.idx(run + 3),
    }
    .max(if region_level { 0 } else { 1 });
    let mut s = gen_script(t, cx);
    let op = t.below(4);
    let reading = op < 2;
    let exact = op % 2 == 1;
    let opname = ["read_volatile_from", "read_exact_volatile_from", "write_volatile_to", "write_all_volatile_to"][op as usize];
    if region_level {
        // region 0 addressed by a region-relative offset
        let off = a.wrapping_sub(base);
        let what = format!("region({:#x}+{}).{}(@ {}, count {})", base, l0, opname, off, count);
        note!(cx, "{} script {:?} tail {}", what, s.script, if s.tail_full { "Full" } else { "Zero" });
        cx.label("region_level");
        let r = mem.iter().next().unwrap();
        let ma = MemoryRegionAddress(off);
        let res = match op {
            0 => r.read_volatile_from(ma, &mut s, count).map(Res::Count),
            1 => r.read_exact_volatile_from(ma, &mut s, count).map(|_| Res::Unit),
            2 => r.write_volatile_to(ma, &mut s, count).map(Res::Count),
            _ => r.write_all_volatile_to(ma, &mut s, count).map(|_| Res::Unit),
        }
        .unwrap_or_else(|e| Res::Err(classify(&e), format!("{:?}", e)));
        let rem = (l0 as usize).saturating_sub(off as usize);
        let (start_valid, room) = if exact { (off as u128 + count as u128 <= l0 as u128, count) } else { (off <= l0, count.min(rem)) };
        let room = if start_valid { room } else { 0 };
        judge(&what, &s, &res, exact, reading, count, room, start_valid, false, cx)?;
    } else {
        let what = format!("mem{}.{}(@ {:#x}, count {}, run {})", lay.describe(), opname, a, count, run);
        note!(cx, "{} script {:?} tail {}", what, s.script, if s.tail_full { "Full" } else { "Zero" });
        cx.label("guest_level");
        let ga = GuestAddress(a);
        let res = match op {
            0 => mem.read_volatile_from(ga, &mut s, count).map(Res::Count),
            1 => mem.read_exact_volatile_from(ga, &mut s, count).map(|_| Res::Unit),
            2 => mem.write_volatile_to(ga, &mut s, count).map(Res::Count),
            _ => mem.write_all_volatile_to(ga, &mut s, count).map(|_| Res::Unit),
        }
        .unwrap_or_else(|e: GmError| Res::Err(classify(&e), format!("{:?}", e)));
        let room = count.min(run);
        if count > 0 && run > 0 {
            let first_end = lay.regs[lay.find(a).unwrap()];
            if a + (room as u64) > first_end.0 + first_end.1 {
                cx.nt("crosses_region_boundary");
            }
            if count > run {
                cx.nt("runs_into_hole");
            }
        }
        if count == 0 {
            // zero-count transfers are C18's business
            cx.discard = Some("zero count");
            return Ok(());
        }
        judge(&what, &s, &res, exact, reading, count, room, run > 0, true, cx)?;
        if run == 0 {
            ensure!(matches!(&res, Res::Err(E::InvalidAddr, _)), "{}: unmapped first byte but the call returned {:?}", what, res);
        }
    }
    // (3) conservation over the whole guest memory
    let mut want = model.clone();
    if reading {
        for i in 0..s.moved {
            want.set(a.wrapping_add(i as u64), stream_byte(i));
        }
    } else {
        let src = model.read(a, s.moved);
        ensure!(s.accepted == src, "the sink accepted {} but guest memory at {:#x} holds {}", hexs(&s.accepted), a, hexs(&src));
    }
    raw_compare(&mem, &want, 0x5C)
}

// ---------------------------------------------------------------------------------------------
// the crate's own stream objects (no scripted faults: end-of-stream, full sinks and the short
// transfers real descriptors produce)

fn pipe_pair() -> Result<(std::fs::File, std::fs::File), String> {
    use std::os::fd::FromRawFd;
    let mut fds = [0i32; 2];
    // SAFETY: plain pipe(2).
    let rc = unsafe { libc::pipe(fds.as_mut_ptr()) };
    ensure!(rc == 0, "HARNESS-PANIC: pipe failed");
    // SAFETY: fresh descriptors owned by the returned files.
    Ok(unsafe { (std::fs::File::from_raw_fd(fds[0]), std::fs::File::from_raw_fd(fds[1])) })
}

fn adapters_body<S: Subject>(mem: &S, lay: &Layout, t: &mut Tape, cx: &mut Cx) -> Result<(), String> {
    let fill = |ri: usize, o: usize| ((ri * 64 + o * 2) as u8) & 0xFE;
    raw_fill(mem, lay, fill, 0x5C);
    let model = FlatModel::new(lay.clone(), fill);
    let (b0, l0) = lay.regs[0];
    let (b1, l1) = lay.regs[1];
    match t.below(4) {
        0 => {
            // region level: region 0 addressed by offsets
            let off = match t.below(4) {
                0 => l0,
                1 => l0 + 1 + t.below(3),
                2 => l0 - 1 - t.below(l0.min(9)),
                _ => t.below(l0 + 1),
            };
            cx.label("region_level");
            let r = mem.iter().next().unwrap();
            adapters_core(mem, lay, &model, r, &|a| MemoryRegionAddress(a - b0), b0 + off, l0.saturating_sub(off) as usize, false, "region", t, cx)
        }
        1 => {
            // slice level: the slice guest memory hands out for region 0
            let off = match t.below(4) {
                0 => l0,
                1 => l0 + 1 + t.below(3),
                2 => l0 - 1 - t.below(l0.min(9)),
                _ => t.below(l0 + 1),
            };
            cx.label("slice_level");
            let vs = mem.get_slice(GuestAddress(b0), l0 as usize).map_err(|e| format!("get_slice of region 0: {:?}", e))?;
            adapters_core(mem, lay, &model, &vs, &|a| (a - b0) as usize, b0 + off, l0.saturating_sub(off) as usize, false, "slice", t, cx)
        }
        _ => {
            let a = match t.below(6) {
                0 => b0 + l0 - 1,
                1 => b1,
                2 => b1 + l1,
                3 => b1 + l1 - 1,
                4 => b0 + l0 - 1 - t.below(l0.min(9)),
                _ => b0 + t.below(l0 + l1 + 2),
            };
            cx.label("guest_level");
            let run = lay.run(a).min(1 << 20) as usize;
            adapters_core(mem, lay, &model, mem, &GuestAddress, a, run, true, "mem", t, cx)
        }
    }
}

/// `b` is addressed through `at(absolute guest address)`; `run` = bytes transferable from `a`.
#[allow(clippy::too_many_arguments)]
fn adapters_core<S: Subject, A: Copy, B: Bytes<A> + ?Sized>(mem: &S, lay: &Layout, model: &FlatModel, b: &B, at: &dyn Fn(u64) -> A, a: u64, run: usize, guest_level: bool, level: &str, t: &mut Tape, cx: &mut Cx) -> Result<(), String>
where
    B::E: std::fmt::Debug,
{
    use std::io::{Cursor, Read, Seek, Write};
    use std::os::unix::fs::FileExt;
    let (_, _) = (mem, guest_level);
    let b1 = lay.regs[1].0;
    let count = match t.below(6) {
        0 => run,
        1 => run + 1 + t.idx(4),
        2 => run.saturating_sub(1 + t.idx(3)),
        3 => (b1.saturating_sub(a)) as usize,
        _ => t.idx(run.min(300) + 3),
    }
    .clamp(1, 9000);
    let avail = match t.below(5) {
        0 => count,
        1 => count + 1 + t.idx(3),
        2 => count.saturating_sub(1 + t.idx(3)),
        3 => 0,
        _ => t.idx(count + 2),
    };
    let op = t.below(4);
    let reading = op < 2;
    let exact = op % 2 == 1;
    let kind = t.below(if reading { 4 } else { 5 });
    let opname = ["read_volatile_from", "read_exact_volatile_from", "write_volatile_to", "write_all_volatile_to"][op as usize];
    let kname = if reading { ["&[u8]", "Cursor<&[u8]>", "File", "pipe"][kind as usize] } else { ["Vec", "&mut [u8]", "Cursor<&mut [u8]>", "File", "pipe"][kind as usize] };
    let what = format!("{}{}.{}(@ {:#x}, {} with {} bytes {}, count {}, run {})", level, lay.describe(), opname, a, kname, avail, if reading { "available" } else { "of room" }, count, run);
    note!(cx, "{}", what);
    cx.nt("crate_stream_object");
    if run > 0 && count > run {
        cx.nt("runs_into_hole");
    }
    if avail < count {
        cx.nt(if reading { "source_ends_early" } else { "sink_fills_up" });
    }
    if guest_level && lay.find(a) == Some(0) && a + (count.min(run) as u64) > b1 {
        cx.nt("crosses_region_boundary");
    }
    let rmap = |r: Result<usize, B::E>| r.map_err(|e| format!("{:?}", e));
    if reading {
        let p0 = if kind == 1 { t.idx(4) } else { 0 };
        let data: Vec<u8> = (0..p0 + avail).map(stream_byte).collect();
        let (res, consumed): (Result<usize, String>, usize) = match kind {
            0 => {
                let mut s: &[u8] = &data[..];
                let r = if exact { b.read_exact_volatile_from(at(a), &mut s, count).map(|_| count) } else { b.read_volatile_from(at(a), &mut s, count) };
                (rmap(r), data.len() - s.len())
            }
            1 => {
                let mut c = Cursor::new(&data[..]);
                c.set_position(p0 as u64);
                let r = if exact { b.read_exact_volatile_from(at(a), &mut c, count).map(|_| count) } else { b.read_volatile_from(at(a), &mut c, count) };
                (rmap(r), c.position() as usize - p0)
            }
            2 => {
                let mut f = memfd(0);
                f.write_all_at(&data, 0).map_err(|e| e.to_string())?;
                let r = if exact { b.read_exact_volatile_from(at(a), &mut f, count).map(|_| count) } else { b.read_volatile_from(at(a), &mut f, count) };
                (rmap(r), f.stream_position().map_err(|e| e.to_string())? as usize)
            }
            _ => {
                let (mut rd, mut wr) = pipe_pair()?;
                wr.write_all(&data).map_err(|e| e.to_string())?;
                drop(wr);
                let r = if exact { b.read_exact_volatile_from(at(a), &mut rd, count).map(|_| count) } else { b.read_volatile_from(at(a), &mut rd, count) };
                let mut rest = Vec::new();
                rd.read_to_end(&mut rest).map_err(|e| e.to_string())?;
                ensure!(data.ends_with(&rest), "{}: what is left in the pipe is not a suffix of what was written", what);
                (rmap(r), data.len() - rest.len())
            }
        };
        // every byte consumed from the reader is stored at the next guest address, nothing else changes
        ensure!(consumed <= count.min(run), "{}: {} bytes were consumed from the reader, only {} can be stored", what, consumed, count.min(run));
        let mut want = model.clone();
        for i in 0..consumed {
            want.set(a.wrapping_add(i as u64), data[p0 + i]);
        }
        raw_compare(mem, &want, 0x5C).map_err(|e| format!("{}: {} bytes were consumed from the reader ({:?} returned); {}", what, consumed, res, e))?;
        match &res {
            Ok(n) if exact => ensure!(*n == count && consumed == count, "{}: success although {} of {} bytes were transferred", what, consumed, count),
            Ok(n) => ensure!(*n == consumed, "{}: returned Ok({}) but {} bytes were consumed from the reader", what, n, consumed),
            Err(e) if exact => ensure!(consumed < count, "{}: all {} bytes were transferred but the call failed with {}", what, count, e),
            Err(e) => ensure!(consumed == 0 && run == 0, "{}: failed with {} after consuming {} bytes", what, e, consumed),
        }
        // a healthy reader and a valid target: the transfer happens
        if run > 0 && avail > 0 && !exact {
            ensure!(matches!(res, Ok(n) if n >= 1), "{}: nothing was transferred ({:?}) although the reader has data and the address is mapped", what, res);
        }
        if exact && avail >= count && count <= run {
            ensure!(res.is_ok(), "{}: the reader holds the full count and the range is mapped, but the call failed with {:?}", what, res);
        }
    } else {
        let p0 = if kind == 0 || kind == 2 { t.idx(4) } else { 0 };
        let (res, accepted): (Result<usize, String>, Vec<u8>) = match kind {
            0 => {
                // a Vec never fills up; `avail` is its spare capacity before the call
                let mut v: Vec<u8> = Vec::with_capacity(p0 + avail);
                v.extend(std::iter::repeat(0xEEu8).take(p0));
                let r = if exact { b.write_all_volatile_to(at(a), &mut v, count).map(|_| count) } else { b.write_volatile_to(at(a), &mut v, count) };
                ensure!(v[..p0].iter().all(|b| *b == 0xEE), "{}: the bytes already in the vector changed", what);
                (rmap(r), v[p0..].to_vec())
            }
            1 => {
                let mut store = vec![0xEEu8; avail];
                let left;
                let r;
                {
                    let mut sink: &mut [u8] = &mut store[..];
                    r = if exact { b.write_all_volatile_to(at(a), &mut sink, count).map(|_| count) } else { b.write_volatile_to(at(a), &mut sink, count) };
                    left = sink.len();
                }
                store.truncate(avail - left);
                (rmap(r), store)
            }
            2 => {
                let mut store = vec![0xEEu8; p0 + avail];
                let pos;
                let r;
                {
                    let mut c = Cursor::new(&mut store[..]);
                    c.set_position(p0 as u64);
                    r = if exact { b.write_all_volatile_to(at(a), &mut c, count).map(|_| count) } else { b.write_volatile_to(at(a), &mut c, count) };
                    pos = c.position() as usize;
                }
                ensure!(store[..p0].iter().all(|b| *b == 0xEE), "{}: bytes before the cursor changed", what);
                (rmap(r), store[p0..pos].to_vec())
            }
            3 => {
                let mut f = memfd(0);
                let r = if exact { b.write_all_volatile_to(at(a), &mut f, count).map(|_| count) } else { b.write_volatile_to(at(a), &mut f, count) };
                let n = f.stream_position().map_err(|e| e.to_string())? as usize;
                (rmap(r), pread_all(&f, 0, n))
            }
            _ => {
                let (mut rd, mut wr) = pipe_pair()?;
                let r = if exact { b.write_all_volatile_to(at(a), &mut wr, count).map(|_| count) } else { b.write_volatile_to(at(a), &mut wr, count) };
                drop(wr);
                let mut got = Vec::new();
                rd.read_to_end(&mut got).map_err(|e| e.to_string())?;
                (rmap(r), got)
            }
        };
        let unbounded = kind == 0 || kind >= 3;
        let room = if unbounded { usize::MAX } else { avail };
        let k = accepted.len();
        ensure!(k <= count.min(run), "{}: the writer received {} bytes, at most {} were to be sent", what, k, count.min(run));
        ensure!(accepted == model.read(a, k), "{}: the writer received {}, guest memory holds {}", what, hexs(&accepted), hexs(&model.read(a, k)));
        raw_compare(mem, &model, 0x5C).map_err(|e| format!("{}: a transfer out of memory modified memory: {}", what, e))?;
        match &res {
            Ok(n) if exact => ensure!(*n == count && k == count, "{}: success although {} of {} bytes were handed to the writer", what, k, count),
            Ok(n) => ensure!(*n == k, "{}: returned Ok({}) but the writer received {} bytes", what, n, k),
            Err(e) if exact => ensure!(k < count, "{}: all {} bytes were written but the call failed with {}", what, count, e),
            // the guest-level up-to form hands every region chunk to the writer in full; a writer
            // that fills up before the transferable bytes are through is reported as WriteZero
            Err(e) => ensure!((k == 0 && run == 0) || (k == room && room < count.min(run) && e.contains("WriteZero")), "{}: failed with {} after writing {} bytes", what, e, k),
        }
        if run > 0 && room >= count.min(run) && !exact {
            ensure!(matches!(res, Ok(n) if n >= 1), "{}: nothing was transferred ({:?}) although the writer has room and the address is mapped", what, res);
        }
        if exact && room >= count && count <= run {
            ensure!(res.is_ok(), "{}: the writer has room for the full count and the range is mapped, but the call failed with {:?}", what, res);
        }
    }
    Ok(())
}

#[cfg(not(feature = "xen"))]
fn run_adapters(t: &mut Tape, cx: &mut Cx) -> Result<(), String> {
    let l0 = 1 + t.below(20);
    let l1 = 1 + t.below(20);
    let base = t.pick(&[0u64, 0x1000, 0xffff_ffff_ffff_f000]);
    let mut regs = vec![(base, l0), (base + l0, l1)];
    if t.flag() {
        regs.push((base + l0 + l1 + 1 + t.below(8), 4));
    }
    let lay = Layout { regs };
    let mem = build_mmap(&lay)?;
    adapters_body(&mem, &lay, t, cx)
}

/// xen build: a one-page region followed by an adjacent short one, of generated kinds
/// (Unix, foreign, grant mapped in advance / on demand): descriptors read and write straight
/// into / out of temporary windows.
#[cfg(feature = "xen")]
fn run_adapters(t: &mut Tape, cx: &mut Cx) -> Result<(), String> {
    use crate::xen_emul::{gen_kind, reset, Kind as XKind, XenMem};
    reset();
    let base = 0x1000 * (1 + t.below(3));
    let lay = Layout { regs: vec![(base, 4096), (base + 4096, 1 + t.below(200))] };
    let kinds = [gen_kind(t), gen_kind(t)];
    note!(cx, "xen kinds {:?}", kinds);
    if kinds.contains(&XKind::GrantOnDemand) {
        cx.nt("xen_on_demand_region");
    }
    let mem = XenMem::build(&lay, &kinds)?;
    adapters_body(&mem, &lay, t, cx)?;
    ensure!(crate::xen_emul::live().len() <= kinds.iter().filter(|k| **k == XKind::GrantAdvance).count(), "temporary windows remain after the transfer: {:x?}", crate::xen_emul::live());
    Ok(())
}

pub fn property() -> Property {
    Property {
        id: "C14",
        rule: "a case = a fault script of 0..10 per-call behaviours of a harness-implemented stream (full, short by 1..9, zero, interrupted incl. bursts, hard error of 4 kinds) followed by a Full or Zero tail + one transfer (read_volatile_from, read_exact_volatile_from, write_volatile_to, write_all_volatile_to) on a slice, on a region, or on guest memory made of two adjacent regions followed by a hole, with counts ending inside the first region, at the boundary, in the second region and in the hole; oracle = conservation invariants over the stream log and memory before/after (interruptions retried and never reported, hard error ends and is reported, delivered bytes stored once in order, nothing else changes, exact forms succeed iff the full count moved, up-to forms report what moved, the stream is never asked for more than what is left); plus the crate's own stream objects (&[u8], Cursor, Vec, &mut [u8], files, pipes) with early end-of-stream / sinks that fill up at slice, region and guest level (xen build: regions of generated kinds incl. mapped on demand): bytes consumed from the reader = bytes stored in order, bytes received by the writer = the next guest bytes, result consistent with both, a healthy stream on a mapped range makes progress; non-trivial = a short transfer happened, repeated interruptions, a hard error, an exact-form shortfall, a range crossing the region boundary or running into the hole; distinct = decoded (script, target, call)",
        assumptions: &["the reader hands out a position-determined byte sequence, so dropped or duplicated bytes are visible", "zero-count transfers are discarded here (C18 owns them)", "kernel-generated EINTR is not injected; the retry logic sees scripted interruptions"],
        subchecks: vec![
            SubCheck { name: "slice", builds: &[Build::Std], kind: Kind::Random { quick: 60_000, thorough: 3_000_000, max_words: 48 }, run: run_slice },
            SubCheck { name: "guest", builds: &[Build::Std, Build::Xen], kind: Kind::Random { quick: 40_000, thorough: 1_500_000, max_words: 48 }, run: run_guest },
            SubCheck { name: "crate_streams", builds: &[Build::Std, Build::Xen], kind: Kind::Random { quick: 6_000, thorough: 200_000, max_words: 32 }, run: run_adapters },
        ],
    }
}
