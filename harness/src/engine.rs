//! Runner: drives property sub-checks with proptest (random tapes) or with exhaustive tape
//! enumerations, counts what was generated, writes replay files and the per-shard result JSON.

use crate::tape::Tape;
use proptest::collection::vec as pvec;
use proptest::prelude::*;
use proptest::test_runner::{Config, RngAlgorithm, RngSeed, TestError, TestRng, TestRunner};
use serde_json::{json, Value};
use std::cell::RefCell;
use std::collections::{BTreeMap, HashSet};
use std::fmt::Write as _;
use std::panic::{catch_unwind, AssertUnwindSafe};

#[derive(Clone, Copy, PartialEq, Eq, Debug)]
pub enum Build {
    /// std build, overflow checks + debug assertions on
    Std,
    /// std build, release without checks
    Plain,
    /// xen feature, checks on
    Xen,
}

pub fn current_build() -> Build {
    if cfg!(feature = "xen") {
        Build::Xen
    } else if cfg!(debug_assertions) {
        Build::Std
    } else {
        Build::Plain
    }
}

impl Build {
    pub fn name(self) -> &'static str {
        match self {
            Build::Std => "std",
            Build::Plain => "plain",
            Build::Xen => "xen",
        }
    }
}

#[derive(Clone, Copy, PartialEq, Eq, Debug)]
pub enum Tier {
    Quick,
    Thorough,
}

/// Per-case context handed to a sub-check.
pub struct Cx<'k> {
    pub verbose: bool,
    pub desc: String,
    pub labels: Vec<&'static str>,
    pub nontrivial: bool,
    pub discard: Option<&'static str>,
    pub counters: Vec<(&'static str, u64)>,
    pub known: &'k [String],
    pub tier: Tier,
    /// print notes as they are made (diagnosing crashes in replay mode: VMV_TRACE=1)
    pub trace: bool,
    /// a failure found inside a helper that cannot return it itself
    pub pending_failure: Option<String>,
}

impl<'k> Cx<'k> {
    pub fn new(verbose: bool, known: &'k [String], tier: Tier) -> Self {
        Cx {
            verbose,
            desc: String::new(),
            labels: Vec::new(),
            nontrivial: false,
            discard: None,
            counters: Vec::new(),
            known,
            tier,
            trace: verbose && std::env::var_os("VMV_TRACE").is_some(),
            pending_failure: None,
        }
    }
    #[inline]
    pub fn label(&mut self, l: &'static str) {
        if !self.labels.contains(&l) {
            self.labels.push(l);
        }
    }
    /// Mark the case non-trivial and label why.
    #[inline]
    pub fn nt(&mut self, l: &'static str) {
        self.nontrivial = true;
        self.label(l);
    }
    #[inline]
    pub fn count(&mut self, c: &'static str, n: u64) {
        for e in self.counters.iter_mut() {
            if e.0 == c {
                e.1 += n;
                return;
            }
        }
        self.counters.push((c, n));
    }
    /// Is `sig` listed as a *known* (unrepaired) finding? Inputs of known findings are excluded
    /// by construction and counted.
    pub fn is_known(&mut self, sig: &str) -> bool {
        if self.known.iter().any(|k| k == sig) {
            self.count("excluded_known", 1);
            true
        } else {
            false
        }
    }
}

#[macro_export]
macro_rules! note {
    ($cx:expr, $($arg:tt)*) => {
        if $cx.verbose {
            use std::fmt::Write as _;
            if $cx.trace {
                eprintln!("trace: {}", format!($($arg)*));
            }
            let _ = write!($cx.desc, $($arg)*);
            $cx.desc.push_str("; ");
        }
    };
}

#[macro_export]
macro_rules! ensure {
    ($cond:expr, $($arg:tt)*) => {
        if !($cond) {
            return Err(format!($($arg)*));
        }
    };
}

pub type RunFn = fn(&mut Tape, &mut Cx) -> Result<(), String>;

pub enum Kind {
    /// Random tapes from proptest: (quick cases, thorough cases, max tape words)
    Random {
        quick: u32,
        thorough: u32,
        max_words: usize,
    },
    /// Complete enumeration of a finite sub-domain as raw tapes.
    Exhaustive {
        gen: fn(Tier) -> Box<dyn Iterator<Item = Vec<u64>>>,
    },
}

pub struct SubCheck {
    pub name: &'static str,
    pub builds: &'static [Build],
    pub kind: Kind,
    pub run: RunFn,
}

pub struct Property {
    pub id: &'static str,
    pub rule: &'static str,
    pub assumptions: &'static [&'static str],
    pub subchecks: Vec<SubCheck>,
}

// -------------------------------------------------------------------------------------------
// panic capture

thread_local! {
    static LAST_PANIC: RefCell<Option<String>> = const { RefCell::new(None) };
}

pub fn install_panic_hook() {
    std::panic::set_hook(Box::new(|info| {
        let msg = if let Some(s) = info.payload().downcast_ref::<&str>() {
            s.to_string()
        } else if let Some(s) = info.payload().downcast_ref::<String>() {
            s.clone()
        } else {
            "<non-string panic>".to_string()
        };
        let loc = info
            .location()
            .map(|l| format!("{}:{}", l.file(), l.line()))
            .unwrap_or_default();
        LAST_PANIC.with(|p| *p.borrow_mut() = Some(format!("{} at {}", msg, loc)));
    }));
}

pub fn take_panic() -> String {
    LAST_PANIC
        .with(|p| p.borrow_mut().take())
        .unwrap_or_else(|| "<unknown panic>".into())
}

/// Run a closure, turning a panic into `Err(message)`.
pub fn no_panic<T>(f: impl FnOnce() -> T) -> Result<T, String> {
    match catch_unwind(AssertUnwindSafe(f)) {
        Ok(v) => Ok(v),
        Err(_) => Err(take_panic()),
    }
}

// -------------------------------------------------------------------------------------------
// current-tape file (crash attribution)

pub struct TapeFile {
    ptr: *mut u64,
    cap_words: usize,
}

impl TapeFile {
    pub fn open(path: &str) -> Option<TapeFile> {
        use std::os::unix::io::AsRawFd;
        let cap_words = 1 << 16;
        let f = std::fs::OpenOptions::new()
            .read(true)
            .write(true)
            .create(true)
            .truncate(true)
            .open(path)
            .ok()?;
        f.set_len((cap_words * 8) as u64).ok()?;
        // SAFETY: plain shared file mapping owned by this object for the process lifetime.
        let p = unsafe {
            libc::syscall(
                libc::SYS_mmap,
                0usize,
                cap_words * 8,
                libc::PROT_READ | libc::PROT_WRITE,
                libc::MAP_SHARED,
                f.as_raw_fd(),
                0usize,
            )
        };
        if p == -1 {
            return None;
        }
        Some(TapeFile {
            ptr: p as *mut u64,
            cap_words,
        })
    }
    /// layout: [0]=magic/seq, [1]=subcheck index, [2]=raw flag, [3]=len, [4..]=words
    pub fn record(&self, sub: usize, raw: bool, words: &[u64]) {
        let n = words.len().min(self.cap_words - 4);
        // SAFETY: within the mapping.
        unsafe {
            std::ptr::write_volatile(self.ptr, 0);
            std::ptr::write_volatile(self.ptr.add(1), sub as u64);
            std::ptr::write_volatile(self.ptr.add(2), raw as u64);
            std::ptr::write_volatile(self.ptr.add(3), n as u64);
            std::ptr::copy_nonoverlapping(words.as_ptr(), self.ptr.add(4), n);
            std::ptr::write_volatile(self.ptr, 0x7a9e_7a9e);
        }
    }
    pub fn clear(&self) {
        // SAFETY: within the mapping.
        unsafe { std::ptr::write_volatile(self.ptr, 0) };
    }
}

// -------------------------------------------------------------------------------------------

pub struct RunOpts {
    pub tier: Tier,
    pub seed: u64,
    pub shard: u32,
    pub nshards: u32,
    pub known: Vec<String>,
    pub only: Option<String>,
    pub tapefile: Option<TapeFile>,
    pub replay_dir: String,
    pub scale: f64,
}

fn fnv(s: &str) -> u64 {
    let mut h = 0xcbf29ce484222325u64;
    for b in s.bytes() {
        h = (h ^ b as u64).wrapping_mul(0x100000001b3);
    }
    h
}

struct SubStats {
    evaluations: u64,
    nontrivial: u64,
    discards: u64,
    exhaustive: bool,
    labels: BTreeMap<&'static str, u64>,
    counters: BTreeMap<&'static str, u64>,
    samples: Vec<Value>,
    sample_labels: BTreeMap<&'static str, u32>,
    wall_s: f64,
}

impl SubStats {
    fn new() -> Self {
        SubStats {
            evaluations: 0,
            nontrivial: 0,
            discards: 0,
            exhaustive: false,
            labels: BTreeMap::new(),
            counters: BTreeMap::new(),
            samples: Vec::new(),
            sample_labels: BTreeMap::new(),
            wall_s: 0.0,
        }
    }
}

pub struct Failure {
    pub subcheck: String,
    pub message: String,
    pub tape: Vec<u64>,
    pub raw: bool,
    pub desc: String,
    pub replay_path: String,
}

/// Execute one tape once. Returns (result, cx-derived info).
pub fn exec_once<'k>(
    run: RunFn,
    words: &[u64],
    raw: bool,
    verbose: bool,
    known: &'k [String],
    tier: Tier,
) -> (Result<(), String>, Cx<'k>, u64) {
    let mut cx = Cx::new(verbose, known, tier);
    let mut tape = Tape::new(words, raw);
    let r = match catch_unwind(AssertUnwindSafe(|| run(&mut tape, &mut cx))) {
        Ok(r) => r,
        Err(_) => {
            let m = take_panic();
            // a panic raised at a harness source location is a harness defect, not a verdict
            let at = m.rsplit(" at ").next().unwrap_or("");
            if at.starts_with("src/") {
                Err(format!("HARNESS-PANIC: {}", m))
            } else {
                Err(format!("panic: {}", m))
            }
        }
    };
    let key = tape.key();
    (r, cx, key)
}

pub fn write_replay(
    dir: &str,
    prop: &str,
    sub: &str,
    raw: bool,
    words: &[u64],
    message: &str,
    desc: &str,
) -> String {
    let _ = std::fs::create_dir_all(dir);
    let mut h = fnv(prop) ^ fnv(sub);
    for w in words {
        h = (h ^ w).wrapping_mul(0x100000001b3);
    }
    let path = format!("{}/{}-{}-{:016x}.tape", dir, prop, sub, h);
    let mut s = String::new();
    let _ = writeln!(s, "property {}", prop);
    let _ = writeln!(s, "subcheck {}", sub);
    let _ = writeln!(s, "build {}", current_build().name());
    let _ = writeln!(s, "mode {}", if raw { "raw" } else { "random" });
    let _ = writeln!(s, "words {}", words.len());
    for w in words {
        let _ = writeln!(s, "{:#018x}", w);
    }
    for l in message.lines() {
        let _ = writeln!(s, "# failure: {}", l);
    }
    for l in desc.split("; ") {
        if !l.is_empty() {
            let _ = writeln!(s, "# case: {}", l);
        }
    }
    let _ = std::fs::write(&path, s);
    path
}

pub struct ReplayFile {
    pub prop: String,
    pub sub: String,
    pub build: String,
    pub raw: bool,
    pub words: Vec<u64>,
}

pub fn read_replay(path: &str) -> Result<ReplayFile, String> {
    let s = std::fs::read_to_string(path).map_err(|e| format!("{}: {}", path, e))?;
    let mut rf = ReplayFile {
        prop: String::new(),
        sub: String::new(),
        build: "std".into(),
        raw: false,
        words: Vec::new(),
    };
    for line in s.lines() {
        let line = line.trim();
        if line.is_empty() || line.starts_with('#') {
            continue;
        }
        if let Some(v) = line.strip_prefix("property ") {
            rf.prop = v.trim().to_string();
        } else if let Some(v) = line.strip_prefix("subcheck ") {
            rf.sub = v.trim().to_string();
        } else if let Some(v) = line.strip_prefix("build ") {
            rf.build = v.trim().to_string();
        } else if let Some(v) = line.strip_prefix("mode ") {
            rf.raw = v.trim() == "raw";
        } else if line.starts_with("words ") {
        } else if let Some(h) = line.strip_prefix("0x") {
            rf.words
                .push(u64::from_str_radix(h, 16).map_err(|e| format!("bad word {}: {}", line, e))?);
        } else {
            rf.words
                .push(line.parse::<u64>().map_err(|e| format!("bad word {}: {}", line, e))?);
        }
    }
    Ok(rf)
}

/// Simple delta-debugging shrinker for raw tapes / non-proptest failures: delete chunks, then
/// lower words.
pub fn shrink_tape(
    run: RunFn,
    mut words: Vec<u64>,
    raw: bool,
    known: &[String],
    tier: Tier,
    budget: usize,
) -> Vec<u64> {
    let fails = |w: &[u64]| exec_once(run, w, raw, false, known, tier).0.is_err();
    let mut iters = 0;
    // chunk deletion
    let mut chunk = words.len().max(1) / 2;
    while chunk >= 1 && iters < budget {
        let mut i = 0;
        let mut progressed = false;
        while i + chunk <= words.len() && iters < budget {
            let mut cand = words.clone();
            cand.drain(i..i + chunk);
            iters += 1;
            if fails(&cand) {
                words = cand;
                progressed = true;
            } else {
                i += chunk;
            }
        }
        if !progressed {
            chunk /= 2;
        }
    }
    // word minimisation (binary search towards 0)
    for i in 0..words.len() {
        if iters >= budget {
            break;
        }
        let mut lo = 0u64;
        let mut hi = words[i];
        while lo < hi && iters < budget {
            let mid = lo + (hi - lo) / 2;
            let mut cand = words.clone();
            cand[i] = mid;
            iters += 1;
            if fails(&cand) {
                hi = mid;
                words[i] = mid;
            } else {
                lo = mid + 1;
            }
        }
    }
    words
}

pub fn run_property(prop: &Property, opts: &RunOpts) -> (Value, Vec<Failure>, Vec<u64>) {
    let build = current_build();
    let mut keys: HashSet<u64> = HashSet::new();
    let mut failures = Vec::new();
    let mut subs_json = serde_json::Map::new();
    let mut total_eval = 0u64;
    let mut all_samples: Vec<Value> = Vec::new();

    for (si, sc) in prop.subchecks.iter().enumerate() {
        if !sc.builds.contains(&build) {
            continue;
        }
        if let Some(o) = &opts.only {
            if o != sc.name {
                continue;
            }
        }
        let t0 = std::time::Instant::now();
        let st = RefCell::new(SubStats::new());
        let keys_cell = RefCell::new(&mut keys);
        let failed = RefCell::new(false);
        let subkey = fnv(sc.name);

        // one evaluation: returns Err(message) on failure
        let eval = |words: &[u64], raw: bool| -> Result<(), String> {
            if let Some(tf) = &opts.tapefile {
                tf.record(si, raw, words);
            }
            let (r, cx, key) = exec_once(sc.run, words, raw, false, &opts.known, opts.tier);
            if *failed.borrow() {
                // shrinking re-executions are not counted
                return r;
            }
            let mut st = st.borrow_mut();
            st.evaluations += 1;
            if cx.discard.is_some() {
                st.discards += 1;
            }
            for l in &cx.labels {
                *st.labels.entry(l).or_insert(0) += 1;
            }
            for (c, n) in &cx.counters {
                *st.counters.entry(c).or_insert(0) += n;
            }
            if r.is_ok() && cx.nontrivial && cx.discard.is_none() {
                if keys_cell.borrow_mut().insert(key ^ subkey) {
                    st.nontrivial += 1;
                }
                // keep up to 2 samples per label, at most 12 per subcheck
                let want = st.samples.len() < 12
                    && cx
                        .labels
                        .iter()
                        .any(|l| st.sample_labels.get(l).copied().unwrap_or(0) < 2);
                if want {
                    for l in &cx.labels {
                        *st.sample_labels.entry(l).or_insert(0) += 1;
                    }
                    let (_, vcx, _) = exec_once(sc.run, words, raw, true, &opts.known, opts.tier);
                    st.samples.push(json!({
                        "subcheck": sc.name,
                        "labels": vcx.labels,
                        "case": vcx.desc,
                        "tape_words": words.len(),
                    }));
                }
            }
            if r.is_err() {
                *failed.borrow_mut() = true;
            }
            r
        };

        match &sc.kind {
            Kind::Random {
                quick,
                thorough,
                max_words,
            } => {
                let total = match opts.tier {
                    Tier::Quick => *quick,
                    Tier::Thorough => *thorough,
                };
                let cases = (((total as f64) * opts.scale) as u32 / opts.nshards).max(1);
                let seed = crate::tape::splitmix(
                    &mut (opts.seed
                        ^ fnv(prop.id).rotate_left(17)
                        ^ subkey.rotate_left(31)
                        ^ ((opts.shard as u64) << 48)
                        ^ ((build as u64) << 40)),
                );
                let mut seed_bytes = [0u8; 32];
                let mut s = seed;
                for c in seed_bytes.chunks_mut(8) {
                    c.copy_from_slice(&crate::tape::splitmix(&mut s).to_le_bytes());
                }
                let config = Config {
                    cases,
                    failure_persistence: None,
                    max_shrink_iters: 3000,
                    rng_seed: RngSeed::Fixed(seed),
                    max_global_rejects: 1 << 20,
                    ..Config::default()
                };
                let mut runner = TestRunner::new_with_rng(
                    config,
                    TestRng::from_seed(RngAlgorithm::ChaCha, &seed_bytes),
                );
                let lo = (*max_words / 4).min(8);
                let strat = pvec(any::<u64>(), lo..=*max_words);
                let result = runner.run(&strat, |words| {
                    eval(&words, false).map_err(|m| TestCaseError::fail(m))
                });
                match result {
                    Ok(()) => {}
                    Err(TestError::Fail(reason, words)) => {
                        // second-stage shrink with our own delta debugger (cheap, often helps)
                        let words =
                            shrink_tape(sc.run, words, false, &opts.known, opts.tier, 2000);
                        let (r, vcx, _) =
                            exec_once(sc.run, &words, false, true, &opts.known, opts.tier);
                        let message = r.err().unwrap_or_else(|| format!("{} [schedule-dependent: did not reproduce on re-execution of the same tape]", reason));
                        let path = write_replay(
                            &opts.replay_dir,
                            prop.id,
                            sc.name,
                            false,
                            &words,
                            &message,
                            &vcx.desc,
                        );
                        failures.push(Failure {
                            subcheck: sc.name.to_string(),
                            message,
                            tape: words,
                            raw: false,
                            desc: vcx.desc,
                            replay_path: path,
                        });
                    }
                    Err(TestError::Abort(reason)) => {
                        failures.push(Failure {
                            subcheck: sc.name.to_string(),
                            message: format!("proptest aborted: {}", reason),
                            tape: vec![],
                            raw: false,
                            desc: String::new(),
                            replay_path: String::new(),
                        });
                    }
                }
            }
            Kind::Exhaustive { gen } => {
                st.borrow_mut().exhaustive = true;
                // shards split the enumeration round-robin
                for (i, words) in gen(opts.tier).enumerate() {
                    if (i as u32) % opts.nshards != opts.shard {
                        continue;
                    }
                    if let Err(message) = eval(&words, true) {
                        let words =
                            shrink_tape(sc.run, words, true, &opts.known, opts.tier, 500);
                        let (r, vcx, _) =
                            exec_once(sc.run, &words, true, true, &opts.known, opts.tier);
                        let message = r.err().unwrap_or(message);
                        let path = write_replay(
                            &opts.replay_dir,
                            prop.id,
                            sc.name,
                            true,
                            &words,
                            &message,
                            &vcx.desc,
                        );
                        failures.push(Failure {
                            subcheck: sc.name.to_string(),
                            message,
                            tape: words,
                            raw: true,
                            desc: vcx.desc,
                            replay_path: path,
                        });
                        break;
                    }
                }
            }
        }
        if let Some(tf) = &opts.tapefile {
            tf.clear();
        }
        let mut st = st.into_inner();
        st.wall_s = t0.elapsed().as_secs_f64();
        total_eval += st.evaluations;
        for s in st.samples.iter().take(4) {
            all_samples.push(s.clone());
        }
        subs_json.insert(
            sc.name.to_string(),
            json!({
                "evaluations": st.evaluations,
                "distinct_nontrivial": st.nontrivial,
                "discards": st.discards,
                "exhaustive": st.exhaustive,
                "labels": st.labels,
                "counters": st.counters,
                "samples": st.samples,
                "wall_s": st.wall_s,
            }),
        );
    }

    let keyv: Vec<u64> = keys.into_iter().collect();
    let out = json!({
        "property_id": prop.id,
        "build": build.name(),
        "shard": opts.shard,
        "nshards": opts.nshards,
        "seed": opts.seed,
        "evaluations": total_eval,
        "distinct_nontrivial": keyv.len(),
        "subchecks": subs_json,
        "samples": all_samples,
        "failures": failures.iter().map(|f| json!({
            "subcheck": f.subcheck, "message": f.message, "replay": f.replay_path,
            "case": f.desc, "tape_words": f.tape.len(),
        })).collect::<Vec<_>>(),
    });
    (out, failures, keyv)
}
