//! vmv: property-based verification harness for rust-vmm/vm-memory (see /verif/DESIGN.md).
#![allow(clippy::all)]
#![allow(dead_code)]
#![allow(unused_imports)]
#![allow(unused_mut)]

pub mod engine;
pub mod interpose;
pub mod tape;

pub mod common;
pub mod objs;
pub mod p01_accessors;
pub mod p02_queries;
pub mod p03_flat;
pub mod p04_container;
pub mod dirty;
pub mod p05_p16_dirty;
pub mod p06_atomicity;
pub mod p07_nocrash;
pub mod p08_sched;
pub mod p09_bitmap;
pub mod p10_maps;
pub mod p13_io_twins;
pub mod p14_faults;
pub mod p11_atomic;
pub mod p12_lifetime;
pub mod progs;
pub mod p15_construct;
pub mod xen_emul;
pub mod p17_guards;
pub mod p18_zero;
pub mod p19_address;
pub mod p20_endian;

use engine::Property;

pub fn properties() -> Vec<Property> {
    vec![
        p01_accessors::property(),
        p02_queries::property(),
        p03_flat::property(),
        p04_container::property(),
        p05_p16_dirty::property_c05(),
        p06_atomicity::property(),
        p07_nocrash::property(),
        p08_sched::property(),
        p09_bitmap::property(),
        p10_maps::property(),
        p11_atomic::property(),
        p12_lifetime::property(),
        p13_io_twins::property(),
        p14_faults::property(),
        p15_construct::property(),
        p05_p16_dirty::property_c16(),
        p17_guards::property(),
        p18_zero::property(),
        p19_address::property(),
        p20_endian::property(),
    ]
}

/// Entry point of the libFuzzer targets (/verif/fuzz): run one tape of one sub-check. An oracle
/// failure writes a replay file and aborts, so that libFuzzer records the input as a crash.
pub fn fuzz_entry(prop: &str, sub: &str, data: &[u8]) {
    use std::sync::OnceLock;
    static TABLE: OnceLock<Vec<(String, String, engine::RunFn)>> = OnceLock::new();
    let table = TABLE.get_or_init(|| {
        engine::install_panic_hook();
        let mut v = Vec::new();
        for p in properties() {
            for sc in p.subchecks {
                v.push((p.id.to_string(), sc.name.to_string(), sc.run));
            }
        }
        v
    });
    let run = match table.iter().find(|e| e.0 == prop && e.1 == sub) {
        Some(e) => e.2,
        None => panic!("unknown fuzz target {}/{}", prop, sub),
    };
    let words: Vec<u64> = data.chunks(8).map(|c| {
        let mut b = [0u8; 8];
        b[..c.len()].copy_from_slice(c);
        u64::from_le_bytes(b)
    }).collect();
    let (r, cx, _) = engine::exec_once(run, &words, false, false, &[], engine::Tier::Thorough);
    let _ = cx;
    if let Err(m) = r {
        if m.starts_with("HARNESS-PANIC") {
            return;
        }
        let (_, vcx, _) = engine::exec_once(run, &words, false, true, &[], engine::Tier::Thorough);
        let dir = std::env::var("VMV_REPLAY_DIR").unwrap_or_else(|_| "/verif/replays".into());
        let path = engine::write_replay(&dir, prop, sub, false, &words, &m, &vcx.desc);
        eprintln!("FUZZ-FAILURE property={} subcheck={} replay={}\n{}", prop, sub, path, m);
        std::process::abort();
    }
}
