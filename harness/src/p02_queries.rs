//! C02 – guest address queries answer exactly according to the set of mapped regions.
//! Oracle: interval-set model over u128.

use crate::common::*;
use crate::engine::*;
use crate::tape::Tape;
use crate::{ensure, note};
use vm_memory::{Address, GuestAddress, GuestMemory, GuestMemoryRegion, MemoryRegionAddress};

fn region_id<R: GuestMemoryRegion>(r: &R) -> (u64, u64) {
    (r.start_addr().0, r.len())
}

/// All single-address queries at `a`.
fn point_queries<S: Subject>(m: &S, lay: &Layout, a: u64, cx: &mut Cx) -> Result<(), String> {
    let ga = GuestAddress(a);
    let exp = lay.find(a);
    let got = m.find_region(ga).map(region_id);
    let want = exp.map(|i| lay.regs[i]);
    ensure!(got == want, "find_region({:#x}) = {:x?}, the layout {} says {:x?}", a, got, lay.describe(), want);
    let tra = m.to_region_addr(ga).map(|(r, o)| (region_id(r), o.0));
    let want_tra = exp.map(|i| (lay.regs[i], a - lay.regs[i].0));
    ensure!(tra == want_tra, "to_region_addr({:#x}) = {:x?}, want {:x?}", a, tra, want_tra);
    ensure!(m.address_in_range(ga) == exp.is_some(), "address_in_range({:#x}) = {}, want {}", a, !exp.is_some(), exp.is_some());
    let ca = m.check_address(ga).map(|x| x.0);
    ensure!(ca == exp.map(|_| a), "check_address({:#x}) = {:x?}", a, ca);
    match (m.get_host_address(ga), exp) {
        (Ok(p), Some(i)) => {
            let want = m.host(i).wrapping_add((a - lay.regs[i].0) as usize);
            ensure!(p == want, "get_host_address({:#x}) = {:p}, want {:p}", a, p, want);
        }
        (Err(_), None) => {}
        (Ok(p), None) => return Err(format!("get_host_address({:#x}) = Ok({:p}) for an unmapped address", a, p)),
        (Err(e), Some(_)) => return Err(format!("get_host_address({:#x}) = Err({:?}) for a mapped address", a, e)),
    }
    // classification
    let near = lay.points().iter().any(|p| (*p as i128 - a as i128).abs() <= 1);
    if near {
        cx.nt("addr_at_region_boundary");
    }
    Ok(())
}

fn range_queries<S: Subject>(m: &S, lay: &Layout, a: u64, n: usize, cx: &mut Cx) -> Result<(), String> {
    let ga = GuestAddress(a);
    let run = lay.run(a);
    let mapped = lay.find(a);
    // check_range
    let got = m.check_range(ga, n);
    if n > 0 {
        let want = run >= n as u128;
        ensure!(got == want, "check_range({:#x}, {}) = {}, but {} consecutive bytes are mapped from there in {} => want {}", a, n, got, run, lay.describe(), want);
        if want && mapped.map(|i| (a - lay.regs[i].0) as u128 + n as u128 > lay.regs[i].1 as u128).unwrap_or(false) {
            cx.nt("range_spans_regions");
        } else if !want && run > 0 {
            cx.nt("range_runs_into_hole");
        }
    } else if mapped.is_some() {
        ensure!(got, "check_range({:#x}, 0) = false for a mapped base", a);
    } else {
        cx.count("dontcare_empty_range_unmapped", 1);
    }
    // get_slice
    let gs = m.get_slice(ga, n);
    if n > 0 {
        let fits = mapped.map(|i| (a - lay.regs[i].0) as u128 + n as u128 <= lay.regs[i].1 as u128).unwrap_or(false);
        match gs {
            Ok(s) => {
                ensure!(fits, "get_slice({:#x}, {}) granted although the range is not contained in one region of {}", a, n, lay.describe());
                ensure!(s.len() == n, "get_slice({:#x}, {}) has len {}", a, n, s.len());
                let i = mapped.unwrap();
                if m.host(i).is_null() {
                    // no stable host pointer (mapped on demand): the slice shows the region's bytes
                    let off = (a - lay.regs[i].0) as usize;
                    let k = n.min(64);
                    let mut b = vec![0u8; k];
                    vm_memory::Bytes::read_slice(&s, &mut b, 0).map_err(|e| format!("get_slice({:#x}, {}).read_slice: {:?}", a, n, e))?;
                    let raw = m.raw_read(i, lay.regs[i].1 as usize);
                    ensure!(b[..] == raw[off..off + k], "get_slice({:#x}, {}) does not show the bytes of region {} at offset {:#x}", a, n, i, off);
                } else {
                    let want = m.host(i).wrapping_add((a - lay.regs[i].0) as usize);
                    let p = s.ptr_guard().as_ptr();
                    ensure!(p == want as *const u8, "get_slice({:#x}, {}) points at {:p}, want {:p}", a, n, p, want);
                }
            }
            Err(e) => {
                ensure!(!fits, "get_slice({:#x}, {}) refused ({:?}) although the range lies inside one region of {}", a, n, e, lay.describe());
                if run > 0 {
                    cx.nt("slice_refused_partial");
                }
            }
        }
    } else if let Ok(s) = gs {
        ensure!(s.len() == 0, "get_slice({:#x}, 0) has len {}", a, s.len());
    }
    if n as u128 > (1u128 << 63) || (a as u128 + n as u128) > TOP {
        cx.nt("overflowing_length");
    }
    Ok(())
}

fn offset_queries<S: Subject>(m: &S, lay: &Layout, a: u64, off: usize, cx: &mut Cx) -> Result<(), String> {
    let sum = a as u128 + off as u128;
    let want = if sum < TOP && lay.find(sum as u64).is_some() { Some(sum as u64) } else { None };
    let got = m.checked_offset(GuestAddress(a), off).map(|x| x.0);
    ensure!(got == want, "checked_offset({:#x}, {:#x}) = {:x?}, want {:x?} in {}", a, off, got, want, lay.describe());
    if sum >= TOP {
        cx.nt("offset_overflows");
    }
    Ok(())
}

fn region_queries<S: Subject>(m: &S, lay: &Layout, t: &mut Tape, cx: &mut Cx) -> Result<(), String> {
    let ri = t.idx(lay.regs.len());
    let (s, l) = lay.regs[ri];
    let r = m.iter().find(|r| r.start_addr().0 == s).ok_or("region missing from iter()")?;
    ensure!(region_id(r) == (s, l), "region {} = {:x?}, want {:x?}", ri, region_id(r), (s, l));
    ensure!(r.last_addr().0 == s.wrapping_add(l - 1), "region.last_addr = {:#x}", r.last_addr().0);
    let o = t.size_near(l);
    let ma = MemoryRegionAddress(o);
    ensure!(r.address_in_range(ma) == (o < l), "region({:#x}+{}).address_in_range({:#x}) = {}", s, l, o, !(o < l));
    ensure!(r.check_address(ma).map(|x| x.0) == if o < l { Some(o) } else { None }, "region.check_address({:#x})", o);
    let off = t.size_near(l) as usize;
    let sum = o as u128 + off as u128;
    let want = if sum < l as u128 { Some(sum as u64) } else { None };
    let got = r.checked_offset(ma, off).map(|x| x.0);
    ensure!(got == want, "region({:#x}+{}).checked_offset({:#x}, {:#x}) = {:x?}, want {:x?}", s, l, o, off, got, want);
    let a = t.addr_near(&lay.points());
    let want = if a >= s && ((a - s) as u128) < l as u128 { Some(a - s) } else { None };
    let got = r.to_region_addr(GuestAddress(a)).map(|x| x.0);
    ensure!(got == want, "region({:#x}+{}).to_region_addr({:#x}) = {:x?}, want {:x?}", s, l, a, got, want);
    if o >= l.saturating_sub(1) && o <= l || sum >= TOP {
        cx.nt("region_offset_boundary");
    }
    Ok(())
}

fn run_generic<S: Subject>(m: &S, lay: &Layout, t: &mut Tape, cx: &mut Cx) -> Result<(), String> {
    note!(cx, "{} layout {}", m.kind(), lay.describe());
    // collection-level facts
    ensure!(m.num_regions() == lay.regs.len(), "num_regions = {}, layout has {}", m.num_regions(), lay.regs.len());
    let mut listed: Vec<(u64, u64)> = m.iter().map(region_id).collect();
    if m.kind() == "mock" {
        // another implementation may iterate in any order: compared as a set
        listed.sort();
    }
    ensure!(listed == lay.regs, "iter() yields {:x?}, want {:x?}", listed, lay.regs);
    let max_mapped = lay.regs.iter().map(|&(s, l)| s.wrapping_add(l - 1)).max().unwrap();
    ensure!(m.last_addr().0 == max_mapped, "last_addr = {:#x}, greatest mapped address is {:#x}", m.last_addr().0, max_mapped);

    let (first, end) = lay.span();
    if end - (first as u128) <= 256 {
        // exhaustive sweep of a small universe: every address of the span +-3
        cx.label("exhaustive_sweep");
        let lo = (first as i128 - 3).max(0) as u128;
        let hi = (end + 3).min(TOP);
        let mut a = lo;
        let mut swept = 0u64;
        while a < hi {
            point_queries(m, lay, a as u64, cx)?;
            if end - (first as u128) <= 12 {
                // tiny universe: every length
                for n in 0..=14usize {
                    range_queries(m, lay, a as u64, n, cx)?;
                    offset_queries(m, lay, a as u64, n, cx)?;
                }
            }
            for n in [1usize, 2, 3, 25] {
                range_queries(m, lay, a as u64, n, cx)?;
            }
            offset_queries(m, lay, a as u64, 1, cx)?;
            swept += 1;
            a += 1;
        }
        cx.count("swept_addresses", swept);
    }
    let pts = lay.points();
    let nq = 4 + t.idx(20);
    for _ in 0..nq {
        match t.below(5) {
            0 | 1 => {
                let a = t.addr_near(&pts);
                note!(cx, "point({:#x})", a);
                point_queries(m, lay, a, cx)?;
            }
            2 => {
                let a = t.addr_near(&pts);
                let run = lay.run(a).min(u64::MAX as u128) as u64;
                let n = t.size_near(run) as usize;
                note!(cx, "range({:#x},{:#x})", a, n);
                range_queries(m, lay, a, n, cx)?;
            }
            3 => {
                let a = t.addr_near(&pts);
                let tgt = t.addr_near(&pts);
                let off = if t.flag() { tgt.wrapping_sub(a) as usize } else { t.size_near(64) as usize };
                note!(cx, "offset({:#x},{:#x})", a, off);
                offset_queries(m, lay, a, off, cx)?;
            }
            _ => {
                note!(cx, "region-level");
                region_queries(m, lay, t, cx)?;
            }
        }
    }
    if lay.regs.windows(2).any(|w| w[0].0 + w[0].1 == w[1].0) {
        cx.label("has_adjacent_regions");
    }
    if end >= TOP - 1 {
        cx.label("layout_at_top");
    }
    Ok(())
}

/// The collection is obtained either directly or through a chain of insert_region /
/// remove_region calls (any collection of regions, however it was built, is in scope).
fn run_mmap(t: &mut Tape, cx: &mut Cx) -> Result<(), String> {
    use std::sync::Arc;
    use vm_memory::{GuestMemoryMmap, GuestRegionMmap};
    let lay = gen_layout(t, 5, TopMode::Mmap, true);
    let mode = t.below(3);
    if mode == 0 {
        let m = build_mmap(&lay)?;
        return run_generic(&m, &lay, t, cx);
    }
    let mk = |s: u64, l: u64| -> Result<Arc<GuestRegionMmap<()>>, String> {
        GuestRegionMmap::<()>::from_range(GuestAddress(s), l as usize, None).map(Arc::new).map_err(|e| format!("from_range: {:?}", e))
    };
    if mode == 1 {
        // start from a superset and remove the extra regions
        cx.nt("built_by_remove_region");
        let mut all = lay.regs.clone();
        let mut extras = Vec::new();
        let nextra = 1 + t.idx(3);
        for _ in 0..nextra {
            // place an extra 1..8-byte region in a gap (or before/after everything)
            let slot = t.idx(all.len() + 1);
            let lo = if slot == 0 { 0u128 } else { all[slot - 1].0 as u128 + all[slot - 1].1 as u128 };
            let hi = if slot == all.len() { TOP - 1 } else { all[slot].0 as u128 };
            if hi <= lo {
                continue;
            }
            let len = (1 + t.below(8) as u128).min(hi - lo);
            let start = match t.below(3) {
                0 => lo,
                1 => hi - len,
                _ => lo + (t.below(1 << 20) as u128).min(hi - len - lo),
            };
            all.insert(slot, (start as u64, len as u64));
            extras.push((start as u64, len as u64));
        }
        let regions: Result<Vec<_>, String> = all.iter().map(|&(s, l)| mk(s, l)).collect();
        let mut m = GuestMemoryMmap::from_arc_regions(regions?).map_err(|e| format!("from_arc_regions({:x?}): {:?}", all, e))?;
        note!(cx, "superset {:x?}, removing {:x?}", all, extras);
        // remove in tape-chosen order
        while !extras.is_empty() {
            let (s, l) = extras.remove(t.idx(extras.len()));
            let (m2, _r) = m.remove_region(GuestAddress(s), l).map_err(|e| format!("remove_region({:#x},{}): {:?}", s, l, e))?;
            m = m2;
        }
        return run_generic(&m, &lay, t, cx);
    }
    // start from one region and insert the others in tape-chosen order
    cx.nt("built_by_insert_region");
    let mut pending = lay.regs.clone();
    let first = pending.remove(t.idx(pending.len()));
    let mut m = GuestMemoryMmap::from_arc_regions(vec![mk(first.0, first.1)?]).map_err(|e| format!("{:?}", e))?;
    while !pending.is_empty() {
        let (s, l) = pending.remove(t.idx(pending.len()));
        m = m.insert_region(mk(s, l)?).map_err(|e| format!("insert_region({:#x},{}): {:?}", s, l, e))?;
    }
    run_generic(&m, &lay, t, cx)
}

fn run_mock(t: &mut Tape, cx: &mut Cx) -> Result<(), String> {
    let lay = gen_layout(t, 5, TopMode::Mock, true);
    // the mock keeps (and iterates) its regions in a tape-chosen order, not necessarily sorted
    let mut order: Vec<usize> = (0..lay.regs.len()).collect();
    if t.flag() {
        for i in (1..order.len()).rev() {
            let j = t.idx(i + 1);
            order.swap(i, j);
        }
        if order.windows(2).any(|w| w[0] > w[1]) {
            cx.nt("mock_iterates_unsorted");
        }
    }
    let m = MockMem::new_ordered(&lay, &order);
    run_generic(&m, &lay, t, cx)
}

/// All layouts of a universe of `TINY` consecutive addresses: every address is unmapped, starts a
/// region, or continues the previous region.
const TINY: usize = 8;

fn tiny_layouts() -> Vec<Vec<(u64, u64)>> {
    let mut out = Vec::new();
    let total = 3usize.pow(TINY as u32);
    'next: for code in 0..total {
        let mut d = [0u8; TINY];
        let mut c = code;
        for x in d.iter_mut() {
            *x = (c % 3) as u8;
            c /= 3;
        }
        let mut regs: Vec<(u64, u64)> = Vec::new();
        for i in 0..TINY {
            match d[i] {
                0 => {}
                1 => regs.push((i as u64, 1)),
                _ => {
                    if i == 0 || d[i - 1] == 0 {
                        continue 'next; // "continues" needs a mapped predecessor: not a distinct layout
                    }
                    regs.last_mut().unwrap().1 += 1;
                }
            }
        }
        if !regs.is_empty() {
            out.push(regs);
        }
    }
    out
}

thread_local! {
    static TINY_LAYOUTS: Vec<Vec<(u64, u64)>> = tiny_layouts();
}

/// Exhaustive: every layout of the tiny universe x 3 anchors x both subjects, every address of
/// the universe +-3 with every point query and every length 0..=14.
fn run_tiny(t: &mut Tape, cx: &mut Cx) -> Result<(), String> {
    let subject = t.below(2);
    let anchor = t.below(3);
    let rel = TINY_LAYOUTS.with(|l| l[t.idx(l.len())].clone());
    let end_limit: u128 = if subject == 0 { TOP - 1 } else { TOP };
    let base: u64 = match anchor {
        0 => 0,
        1 => (1u64 << 32) - 4,
        _ => (end_limit - TINY as u128) as u64,
    };
    let lay = Layout { regs: rel.iter().map(|&(s, l)| (base + s, l)).collect() };
    cx.nt("tiny_universe");
    cx.label(["anchor_0", "anchor_2_32", "anchor_top"][anchor as usize]);
    if subject == 0 {
        let m = build_mmap(&lay)?;
        run_generic(&m, &lay, t, cx)
    } else {
        let m = MockMem::new(&lay);
        run_generic(&m, &lay, t, cx)
    }
}

fn gen_tiny(_t: Tier) -> Box<dyn Iterator<Item = Vec<u64>>> {
    let n = TINY_LAYOUTS.with(|l| l.len()) as u64;
    Box::new((0..2u64).flat_map(move |s| (0..3u64).flat_map(move |a| (0..n).map(move |i| vec![s, a, i]))))
}

/// Hand-written regression cases (bypass the generators).
fn run_regress(t: &mut Tape, cx: &mut Cx) -> Result<(), String> {
    match t.below(2) {
        _ => {
            // F6: try_access wrapped from 2^64-1 to address 0 (fixed in /repo: "fix: GuestMemory::try_access must not wrap")
            let lay = Layout { regs: vec![(0, 2), (u64::MAX - 1, 2)] };
            let m = MockMem::new(&lay);
            note!(cx, "regression F6: mock layout {} check_range across the top", lay.describe());
            cx.nt("regression_F6");
            for (a, n, want) in [(u64::MAX, 2usize, false), (u64::MAX - 1, 3, false), (u64::MAX - 1, 2, true), (u64::MAX, 1, true), (u64::MAX, usize::MAX, false)] {
                let got = m.check_range(GuestAddress(a), n);
                ensure!(got == want, "check_range({:#x}, {}) = {} on {}, want {}", a, n, got, lay.describe(), want);
            }
            Ok(())
        }
    }
}

fn gen_regress(_t: Tier) -> Box<dyn Iterator<Item = Vec<u64>>> {
    Box::new((0..2u64).map(|i| vec![i]))
}

/// xen build: collections of emulated Unix / foreign / grant regions (incl. mapped on demand)
/// whose sizes are page multiples, sub-page, or end inside their last page.
#[cfg(feature = "xen")]
fn run_xen(t: &mut Tape, cx: &mut Cx) -> Result<(), String> {
    use crate::xen_emul::{gen_kind, live, reset, Kind as XKind, XenMem};
    reset();
    let n = 1 + t.idx(3);
    let mut regs = Vec::new();
    let mut kinds = Vec::new();
    let mut cur = 0x1000u64 * (1 + t.below(3));
    for _ in 0..n {
        let size = t.pick(&[4096u64, 0x1800, 0x2000, 0x2001, 1, 40, 0xfff, 4096]);
        regs.push((cur, size));
        kinds.push(gen_kind(t));
        let pages = size.div_ceil(4096) * 4096;
        // adjacent when this one fills its pages, otherwise after a hole
        cur += if size == pages && t.chance(3, 4) { pages } else { pages + 0x1000 };
    }
    let lay = Layout { regs };
    let m = XenMem::build(&lay, &kinds)?;
    note!(cx, "xen kinds {:?}", kinds);
    cx.nt("xen_regions");
    if kinds.iter().any(|k| *k == XKind::GrantOnDemand) {
        cx.nt("on_demand_region");
    }
    raw_fill(&m, &lay, |ri, o| ((ri * 37 + o * 3 + (o >> 8)) as u8) | 1, 0);
    let before = live();
    let r = run_generic(&m, &lay, t, cx);
    ensure!(live() == before, "temporary Xen windows remain mapped after the queries: {:x?}", live());
    r
}

#[cfg(not(feature = "xen"))]
fn run_xen(_t: &mut Tape, _cx: &mut Cx) -> Result<(), String> {
    Ok(())
}

/// A region whose last byte is the last address (base + size = 2^64). Whether such a region can
/// be created is not prescribed here (C10 treats it as a don't-care); but if the library creates
/// it and builds a collection with it, every query has to answer according to that region.
fn run_top(t: &mut Tape, cx: &mut Cx) -> Result<(), String> {
    use vm_memory::{GuestMemoryMmap, GuestRegionMmap};
    let size = t.pick(&[1u64, 0x1000, 0x1800, 0x2000]);
    let base = (u64::MAX - size).wrapping_add(1);
    note!(cx, "region {:#x}+{:#x} (ends at the top of the address space)", base, size);
    let top = match GuestRegionMmap::<()>::from_range(GuestAddress(base), size as usize, None) {
        Ok(r) => r,
        Err(_) => {
            cx.count("top_region_refused_at_creation", 1);
            cx.nt("top_region_attempt");
            return Ok(());
        }
    };
    let mut regs = Vec::new();
    let mut lay = Layout { regs: vec![] };
    if t.flag() {
        let (s, l) = (0x1000u64 * t.below(4), t.pick(&[1u64, 0x1000, 0x1001]));
        regs.push(GuestRegionMmap::<()>::from_range(GuestAddress(s), l as usize, None).map_err(|e| format!("{:?}", e))?);
        lay.regs.push((s, l));
    }
    regs.push(top);
    lay.regs.push((base, size));
    let m = match GuestMemoryMmap::from_regions(regs) {
        Ok(m) => m,
        Err(_) => {
            cx.count("top_region_refused_by_collection", 1);
            cx.nt("top_region_attempt");
            return Ok(());
        }
    };
    cx.nt("top_region_built");
    run_generic(&m, &lay, t, cx)
}

/// Collections with many regions (lookups may change strategy with the number of regions) and
/// regions whose mapping is not writable (queries do not depend on the protection).
#[cfg(not(feature = "xen"))]
fn run_many(t: &mut Tape, cx: &mut Cx) -> Result<(), String> {
    use vm_memory::{GuestMemoryMmap, GuestRegionMmap, MmapRegion};
    let n = match t.below(4) {
        0 => 16,
        1 => 17,
        2 => 18 + t.idx(16),
        _ => 1 + t.idx(40),
    };
    let mut regs = Vec::new();
    let mut lay = Layout { regs: vec![] };
    let mut cur = 0x1000u64 * t.below(3);
    let mut readonly = 0;
    for _ in 0..n {
        let len = t.pick(&[1u64, 0x1000, 0x1000, 7, 0x1001]);
        let prot = if t.chance(1, 4) {
            readonly += 1;
            libc::PROT_READ
        } else {
            libc::PROT_READ | libc::PROT_WRITE
        };
        let m = MmapRegion::<()>::build(None, len as usize, prot, libc::MAP_ANONYMOUS | libc::MAP_PRIVATE).map_err(|e| format!("build: {:?}", e))?;
        regs.push(GuestRegionMmap::new(m, GuestAddress(cur)).map_err(|e| format!("{:?}", e))?);
        lay.regs.push((cur, len));
        // adjacent, or after a gap
        cur += len + if t.chance(1, 3) { 0 } else { 1 + t.below(0x2000) };
    }
    let m = GuestMemoryMmap::from_regions(regs).map_err(|e| format!("{:?}", e))?;
    note!(cx, "{} regions, {} of them read-only", n, readonly);
    cx.nt(if n > 16 { "more_than_16_regions" } else { "up_to_16_regions" });
    if readonly > 0 {
        cx.nt("read_only_region");
    }
    // every region start, end and the bytes around them
    for &(s, l) in &lay.regs {
        for a in [s, s + l - 1, s + l, s.wrapping_sub(1)] {
            point_queries(&m, &lay, a, cx)?;
            range_queries(&m, &lay, a, 1, cx)?;
            range_queries(&m, &lay, a, 2, cx)?;
        }
    }
    run_generic(&m, &lay, t, cx)
}

#[cfg(feature = "xen")]
fn run_many(_t: &mut Tape, _cx: &mut Cx) -> Result<(), String> {
    Ok(())
}

pub fn property() -> Property {
    Property {
        id: "C02",
        rule: "a case = one generated layout (1..5 sorted disjoint regions, sizes 1..24 bytes or page-sized, gaps 0/1/small/huge, anchored at 0, mid-range, 2^32, 2^63, the top, or split between bottom and top) + every address of the span +-3 swept with all point/range/offset queries when the span is <= 256 addresses + 4..24 generated queries (addresses near region boundaries and extremes, lengths/offsets incl. 0 and usize::MAX); subjects: GuestMemoryMmap and a mock GuestMemory using only the trait's default methods (may own the last address 2^64-1); non-trivial = a query within 1 of a region boundary, a range touching >=2 regions or a hole, or an overflowing offset/length; distinct = decoded (layout, queries)",
        assumptions: &["oracle: interval-set model over u128", "don't-care (counted, not asserted): check_range/get_slice with length 0 at an unmapped base"],
        subchecks: vec![
            SubCheck { name: "mmap", builds: &[Build::Std, Build::Xen], kind: Kind::Random { quick: 6_000, thorough: 400_000, max_words: 160 }, run: run_mmap },
            SubCheck { name: "mock", builds: &[Build::Std], kind: Kind::Random { quick: 6_000, thorough: 400_000, max_words: 160 }, run: run_mock },
            SubCheck { name: "tiny_universes", builds: &[Build::Std, Build::Xen], kind: Kind::Exhaustive { gen: gen_tiny }, run: run_tiny },
            SubCheck { name: "regress", builds: &[Build::Std], kind: Kind::Exhaustive { gen: gen_regress }, run: run_regress },
            SubCheck { name: "many_regions", builds: &[Build::Std], kind: Kind::Random { quick: 400, thorough: 30_000, max_words: 200 }, run: run_many },
            SubCheck { name: "xen_regions", builds: &[Build::Xen], kind: Kind::Random { quick: 3_000, thorough: 200_000, max_words: 160 }, run: run_xen },
            SubCheck { name: "top_region", builds: &[Build::Std, Build::Xen], kind: Kind::Random { quick: 300, thorough: 20_000, max_words: 100 }, run: run_top },
        ],
    }
}
