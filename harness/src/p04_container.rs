//! C04 – every accessor of a volatile container moves exactly the bytes it names.
//! Oracle: `Vec<u8>` model; the container is read back through the raw host pointer after
//! every operation and compared with the model (target bytes and frame).

use crate::common::*;
use crate::engine::*;
use crate::objs::*;
use crate::tape::Tape;
use crate::{ensure, note};
use vm_memory::volatile_memory::Error as VmError;
use vm_memory::{Be64, ByteValued, Bytes, Le32, VolatileMemory, VolatileSlice};

/// Plain-data element types with an encoding that does not go through `ByteValued`.
pub trait Pod: ByteValued + std::fmt::Debug {
    const N: usize;
    const NAME: &'static str;
    fn from_b(b: &[u8]) -> Self;
    fn to_b(&self) -> Vec<u8>;
}

macro_rules! pod_int {
    ($t:ty, $n:expr) => {
        impl Pod for $t {
            const N: usize = $n;
            const NAME: &'static str = stringify!($t);
            fn from_b(b: &[u8]) -> Self {
                let mut a = [0u8; $n];
                a.copy_from_slice(&b[..$n]);
                <$t>::from_ne_bytes(a)
            }
            fn to_b(&self) -> Vec<u8> {
                self.to_ne_bytes().to_vec()
            }
        }
    };
}
pod_int!(u8, 1);
pod_int!(i8, 1);
pod_int!(u16, 2);
pod_int!(u32, 4);
pod_int!(u64, 8);
pod_int!(u128, 16);
pod_int!(usize, 8);

impl Pod for [u8; 3] {
    const N: usize = 3;
    const NAME: &'static str = "[u8;3]";
    fn from_b(b: &[u8]) -> Self {
        [b[0], b[1], b[2]]
    }
    fn to_b(&self) -> Vec<u8> {
        self.to_vec()
    }
}
impl Pod for [u16; 5] {
    const N: usize = 10;
    const NAME: &'static str = "[u16;5]";
    fn from_b(b: &[u8]) -> Self {
        let mut a = [0u16; 5];
        for i in 0..5 {
            a[i] = u16::from_ne_bytes([b[2 * i], b[2 * i + 1]]);
        }
        a
    }
    fn to_b(&self) -> Vec<u8> {
        self.iter().flat_map(|x| x.to_ne_bytes()).collect()
    }
}
impl Pod for Le32 {
    const N: usize = 4;
    const NAME: &'static str = "Le32";
    fn from_b(b: &[u8]) -> Self {
        Le32::from(u32::from_le_bytes([b[0], b[1], b[2], b[3]]))
    }
    fn to_b(&self) -> Vec<u8> {
        self.to_native().to_le_bytes().to_vec()
    }
}
impl Pod for Be64 {
    const N: usize = 8;
    const NAME: &'static str = "Be64";
    fn from_b(b: &[u8]) -> Self {
        let mut a = [0u8; 8];
        a.copy_from_slice(&b[..8]);
        Be64::from(u64::from_be_bytes(a))
    }
    fn to_b(&self) -> Vec<u8> {
        self.to_native().to_be_bytes().to_vec()
    }
}

pub const NPOD: usize = 11;

#[macro_export]
macro_rules! with_pod {
    ($sel:expr, $f:ident, $($args:expr),*) => {
        match $sel {
            0 => $f::<u8, _>($($args),*),
            1 => $f::<i8, _>($($args),*),
            2 => $f::<u16, _>($($args),*),
            3 => $f::<u32, _>($($args),*),
            4 => $f::<u64, _>($($args),*),
            5 => $f::<u128, _>($($args),*),
            6 => $f::<usize, _>($($args),*),
            7 => $f::<[u8; 3], _>($($args),*),
            8 => $f::<[u16; 5], _>($($args),*),
            9 => $f::<Le32, _>($($args),*),
            _ => $f::<Be64, _>($($args),*),
        }
    };
}

/// Raw view of the container's bytes, independent of the API under test.
pub trait Raw {
    fn read_all(&self) -> Vec<u8>;
    fn write_all(&self, data: &[u8]);
    /// stable host pointer of byte 0, if the container has one (on-demand Xen regions do not)
    fn host(&self) -> Option<*mut u8>;
    /// address of byte 0 as far as alignment is concerned
    fn align_base(&self) -> usize;
}

pub struct PtrRaw(pub *mut u8, pub usize);
impl Raw for PtrRaw {
    fn read_all(&self) -> Vec<u8> {
        // SAFETY: inside the container.
        (0..self.1).map(|i| unsafe { self.0.add(i).read_volatile() }).collect()
    }
    fn write_all(&self, data: &[u8]) {
        for (i, b) in data.iter().enumerate() {
            // SAFETY: inside the container.
            unsafe { self.0.add(i).write_volatile(*b) };
        }
    }
    fn host(&self) -> Option<*mut u8> {
        Some(self.0)
    }
    fn align_base(&self) -> usize {
        self.0 as usize
    }
}

pub struct St {
    pub model: Vec<u8>,
    /// kind of the operation family that last wrote each byte (0 = initial fill)
    pub writer: Vec<u8>,
    pub host: Option<*mut u8>,
    pub align_base: usize,
}

impl St {
    fn wr(&mut self, off: usize, bytes: &[u8], fam: u8) {
        self.model[off..off + bytes.len()].copy_from_slice(bytes);
        for w in &mut self.writer[off..off + bytes.len()] {
            *w = fam;
        }
    }
    fn rd_mark(&self, off: usize, n: usize, fam: u8, cx: &mut Cx) {
        if self.writer[off..off + n].iter().any(|w| *w != 0 && *w != fam) {
            cx.nt("read_via_other_route");
        }
    }
}

/// What the checks need to know about an error value of either error type.
pub trait ErrInfo {
    /// `Some((expected, completed))` for a partial-buffer error
    fn partial(&self) -> Option<(usize, usize)>;
}

impl ErrInfo for VmError {
    fn partial(&self) -> Option<(usize, usize)> {
        match self {
            VmError::PartialBuffer { expected, completed } => Some((*expected, *completed)),
            _ => None,
        }
    }
}

impl ErrInfo for vm_memory::GuestMemoryError {
    fn partial(&self) -> Option<(usize, usize)> {
        match self {
            vm_memory::GuestMemoryError::PartialBuffer { expected, completed } => Some((*expected, *completed)),
            _ => None,
        }
    }
}

fn verr(e: &VmError) -> String {
    format!("{:?}", e)
}

fn classify_span(size: usize, off: usize, len: usize, cx: &mut Cx) {
    if (off as u128 + len as u128) >= size as u128 {
        cx.nt("touches_or_crosses_end");
    }
    if (7..=9).contains(&len) {
        cx.nt("len_7_to_9");
    }
}

fn pick_off(t: &mut Tape, size: usize) -> usize {
    match t.below(8) {
        0..=4 => t.idx(size + 1),
        5 => size.saturating_sub(1 + t.idx(9)),
        6 => size + t.idx(3),
        _ => t.size_near(size as u64) as usize,
    }
}

fn pick_buflen(t: &mut Tape, remaining: usize) -> usize {
    match t.below(6) {
        0 => 7 + t.idx(3),
        1 => remaining,
        2 => remaining + 1 + t.idx(3),
        3 => remaining.saturating_sub(1),
        _ => t.idx(41),
    }
}

// ---- typed reference / array operations (generic over the element type) ----

fn op_ref<T: Pod, M: VolatileMemory>(c: &M, st: &mut St, t: &mut Tape, cx: &mut Cx) -> Result<(), String> {
    let size = st.model.len();
    let off = pick_off(t, size);
    let store = t.flag();
    let data = t.bytes(T::N);
    note!(cx, "get_ref::<{}>({}).{}", T::NAME, off, if store { "store" } else { "load" });
    classify_span(size, off, T::N, cx);
    let fits = off as u128 + T::N as u128 <= size as u128;
    match c.get_ref::<T>(off) {
        Ok(r) => {
            ensure!(fits, "get_ref::<{}>({}) succeeded on a container of {} bytes", T::NAME, off, size);
            ensure!(r.len() == T::N, "VolatileRef::len");
            if store {
                r.store(T::from_b(&data));
                st.wr(off, &data, 2);
            } else {
                let v = r.load().to_b();
                ensure!(v[..] == st.model[off..off + T::N], "get_ref::<{}>({}).load() = {}, model {}", T::NAME, off, hexs(&v), hexs(&st.model[off..off + T::N]));
                st.rd_mark(off, T::N, 2, cx);
            }
        }
        Err(e) => ensure!(!fits, "get_ref::<{}>({}) refused ({}) although it fits in {} bytes", T::NAME, off, verr(&e), size),
    }
    if fits && t.flag() {
        // the byte view of the reference shows the same bytes
        let r = c.get_ref::<T>(off).map_err(|e| verr(&e))?;
        ensure!(r.ptr_guard().len() == T::N, "get_ref::<{}>: guard of {} bytes", T::NAME, r.ptr_guard().len());
        let s = r.to_slice();
        ensure!(s.len() == T::N, "get_ref::<{}>({}).to_slice().len() = {}", T::NAME, off, s.len());
        let mut b = vec![0u8; T::N];
        s.read_slice(&mut b, 0).map_err(|e| format!("get_ref.to_slice().read_slice: {}", verr(&e)))?;
        ensure!(b[..] == st.model[off..off + T::N], "get_ref::<{}>({}).to_slice() reads {}, model {}", T::NAME, off, hexs(&b), hexs(&st.model[off..off + T::N]));
        let data = t.bytes(T::N);
        s.write_slice(&data, 0).map_err(|e| format!("get_ref.to_slice().write_slice: {}", verr(&e)))?;
        st.wr(off, &data, 2);
        note!(cx, "get_ref::<{}>({}).to_slice() read+write", T::NAME, off);
    }
    Ok(())
}

fn op_array<T: Pod, M: VolatileMemory>(c: &M, st: &mut St, t: &mut Tape, cx: &mut Cx) -> Result<(), String> {
    let size = st.model.len();
    let off = pick_off(t, size);
    let avail = size.saturating_sub(off) / T::N;
    let n = match t.below(5) {
        0 => avail,
        1 => avail + 1,
        2 => avail.saturating_sub(1),
        _ => t.idx(avail + 2),
    };
    let fits = off as u128 + (n as u128) * (T::N as u128) <= size as u128;
    let ar = match c.get_array_ref::<T>(off, n) {
        Ok(a) => {
            ensure!(fits, "get_array_ref::<{}>({}, {}) succeeded on a container of {} bytes", T::NAME, off, n, size);
            a
        }
        Err(e) => {
            ensure!(!fits, "get_array_ref::<{}>({}, {}) refused ({}) although it fits in {} bytes", T::NAME, off, n, verr(&e), size);
            note!(cx, "get_array_ref::<{}>({}, {}) refused", T::NAME, off, n);
            cx.nt("touches_or_crosses_end");
            return Ok(());
        }
    };
    ensure!(ar.len() == n && ar.element_size() == T::N && ar.is_empty() == (n == 0), "VolatileArrayRef len/element_size/is_empty");
    classify_span(size, off, n * T::N, cx);
    let sub = t.below(8);
    match sub {
        0 if n > 0 => {
            let i = t.idx(n);
            let v = ar.load(i).to_b();
            let o = off + i * T::N;
            note!(cx, "array::<{}>({},{}).load({})", T::NAME, off, n, i);
            ensure!(v[..] == st.model[o..o + T::N], "array::<{}>({},{}).load({}) = {}, model {}", T::NAME, off, n, i, hexs(&v), hexs(&st.model[o..o + T::N]));
            st.rd_mark(o, T::N, 3, cx);
        }
        1 if n > 0 => {
            let i = t.idx(n);
            let data = t.bytes(T::N);
            note!(cx, "array::<{}>({},{}).store({})", T::NAME, off, n, i);
            ar.store(i, T::from_b(&data));
            st.wr(off + i * T::N, &data, 3);
        }
        2 if t.chance(1, 5) => {
            // an index that names no element (== len, or beyond): the documented panic, and
            // neither a value nor a change of any byte
            let bad = if t.flag() { n } else { n + 1 + t.idx(3) };
            let data = t.bytes(T::N);
            note!(cx, "array::<{}>({},{}).load/store/ref_at({}) (no such element)", T::NAME, off, n, bad);
            cx.nt("index_names_no_element");
            ensure!(crate::engine::no_panic(|| ar.load(bad).to_b()).is_err(), "array::<{}>({},{}).load({}) returned a value", T::NAME, off, n, bad);
            ensure!(crate::engine::no_panic(|| ar.store(bad, T::from_b(&data))).is_err(), "array::<{}>({},{}).store({}) returned normally", T::NAME, off, n, bad);
            ensure!(crate::engine::no_panic(|| ar.ref_at(bad).ptr_guard().len()).is_err(), "array::<{}>({},{}).ref_at({}) returned a reference", T::NAME, off, n, bad);
        }
        2 if n > 0 => {
            let i = t.idx(n);
            let data = t.bytes(T::N);
            note!(cx, "array::<{}>({},{}).ref_at({}).store+load", T::NAME, off, n, i);
            let r = ar.ref_at(i);
            r.store(T::from_b(&data));
            st.wr(off + i * T::N, &data, 3);
            let v = r.load().to_b();
            ensure!(v == data, "ref_at({}).load after store", i);
        }
        3 => {
            // copy_to
            let bl = pick_buflen(t, n);
            let filler = T::from_b(&[0xEE; 16]);
            let mut buf = vec![filler; bl];
            note!(cx, "array::<{}>({},{}).copy_to(buf of {})", T::NAME, off, n, bl);
            let k = ar.copy_to(&mut buf);
            let want = bl.min(n);
            ensure!(k == want, "array::<{}>({},{}).copy_to(buf of {}) returned {}, want {}", T::NAME, off, n, bl, k, want);
            for i in 0..bl {
                let b = buf[i].to_b();
                if i < want {
                    let o = off + i * T::N;
                    ensure!(b[..] == st.model[o..o + T::N], "copy_to element {} = {}, model {}", i, hexs(&b), hexs(&st.model[o..o + T::N]));
                } else {
                    ensure!(b == filler.to_b(), "copy_to wrote element {} beyond the {} it reported", i, want);
                }
            }
            if want > 0 {
                st.rd_mark(off, want * T::N, 4, cx);
            }
            if bl != n {
                cx.nt("buffer_len_differs");
            }
        }
        4 => {
            let bl = pick_buflen(t, n);
            let data = t.bytes(bl * T::N);
            let buf: Vec<T> = (0..bl).map(|i| T::from_b(&data[i * T::N..])).collect();
            note!(cx, "array::<{}>({},{}).copy_from(buf of {})", T::NAME, off, n, bl);
            ar.copy_from(&buf);
            let want = bl.min(n);
            // re-encode: from_b/to_b round trip is the identity for all Pod types
            st.wr(off, &data[..want * T::N], 4);
            if bl != n {
                cx.nt("buffer_len_differs");
            }
        }
        5 => {
            // copy_to_volatile_slice into another part of the same container (memmove)
            let doff = t.idx(size + 1);
            let dlen = t.idx(size - doff + 1);
            note!(cx, "array::<{}>({},{}).copy_to_volatile_slice(container[{}..+{}])", T::NAME, off, n, doff, dlen);
            let dst = c.get_slice(doff, dlen).map_err(|e| format!("get_slice({},{}) on {}: {}", doff, dlen, size, verr(&e)))?;
            ar.copy_to_volatile_slice(dst);
            let cnt = (n * T::N).min(dlen);
            let src: Vec<u8> = st.model[off..off + cnt].to_vec();
            st.wr(doff, &src, 5);
            if doff < off + cnt && off < doff + cnt && cnt > 0 {
                cx.nt("overlapping_slice_copy");
            }
        }
        6 => {
            // copy_to_volatile_slice into memory outside the container / from an element array
            // outside the container into a slice of it (the two sides are mapped differently)
            if t.flag() {
                let dlen = match t.below(3) {
                    0 => n * T::N,
                    1 => n * T::N + 1 + t.idx(4),
                    _ => t.idx(n * T::N + 1),
                };
                let mut local = vec![0xEEu8; dlen + 8];
                // SAFETY: live local buffer.
                let dst = unsafe { VolatileSlice::new(local.as_mut_ptr().add(4), dlen) };
                note!(cx, "array::<{}>({},{}).copy_to_volatile_slice(extern[{}])", T::NAME, off, n, dlen);
                ar.copy_to_volatile_slice(dst);
                let cnt = (n * T::N).min(dlen);
                ensure!(local[4..4 + cnt] == st.model[off..off + cnt], "array::<{}>({},{}).copy_to_volatile_slice(extern[{}]) delivered {}, model {}", T::NAME, off, n, dlen, hexs(&local[4..4 + cnt]), hexs(&st.model[off..off + cnt]));
                ensure!(local[..4].iter().all(|b| *b == 0xEE) && local[4 + cnt..].iter().all(|b| *b == 0xEE), "copy_to_volatile_slice wrote outside the {} bytes it may copy", cnt);
                if cnt > 0 {
                    st.rd_mark(off, cnt, 5, cx);
                }
            } else {
                let doff = t.idx(size + 1);
                let dlen = t.idx(size - doff + 1);
                let m = match t.below(3) {
                    0 => dlen / T::N,
                    1 => dlen / T::N + 1 + t.idx(2),
                    _ => t.idx(dlen / T::N + 1),
                };
                let mut data = t.bytes(m * T::N);
                // SAFETY: live local buffer of m elements.
                let ext = unsafe { VolatileSlice::new(data.as_mut_ptr(), m * T::N) };
                let ea = ext.get_array_ref::<T>(0, m).map_err(|e| verr(&e))?;
                let dst = c.get_slice(doff, dlen).map_err(|e| format!("get_slice({},{}) on {}: {}", doff, dlen, size, verr(&e)))?;
                note!(cx, "extern array::<{}>[{}].copy_to_volatile_slice(container[{}..+{}])", T::NAME, m, doff, dlen);
                ea.copy_to_volatile_slice(dst);
                let cnt = (m * T::N).min(dlen);
                let src = data[..cnt].to_vec();
                st.wr(doff, &src, 5);
            }
            cx.nt("copy_between_container_and_outside");
        }
        _ => {
            let s = ar.to_slice();
            ensure!(s.len() == n * T::N, "array.to_slice().len() = {}, want {}", s.len(), n * T::N);
            if let Some(h) = st.host {
                ensure!(s.ptr_guard().as_ptr() == h.wrapping_add(off) as *const u8, "array.to_slice() points elsewhere");
            }
            // the byte view shows the elements' bytes
            let k = (n * T::N).min(48);
            let mut b = vec![0u8; k];
            s.read_slice(&mut b, 0).map_err(|e| format!("array.to_slice().read_slice: {}", verr(&e)))?;
            ensure!(b[..] == st.model[off..off + k], "array::<{}>({},{}).to_slice() reads {}, model {}", T::NAME, off, n, hexs(&b), hexs(&st.model[off..off + k]));
            if n > 0 {
                let i = t.idx(n);
                let rs = ar.ref_at(i).to_slice();
                let mut e = vec![0u8; T::N];
                rs.read_slice(&mut e, 0).map_err(|e| format!("ref_at.to_slice().read_slice: {}", verr(&e)))?;
                let o = off + i * T::N;
                ensure!(e[..] == st.model[o..o + T::N], "array::<{}>({},{}).ref_at({}).to_slice() reads {}, model {}", T::NAME, off, n, i, hexs(&e), hexs(&st.model[o..o + T::N]));
            }
            note!(cx, "array::<{}>({},{}).to_slice()", T::NAME, off, n);
        }
    }
    Ok(())
}

/// Plain references handed out by the container (only where it has a stable host address): a
/// fitting, aligned request is granted and the reference shows / changes exactly the named bytes.
fn op_typed<T: Pod, M: VolatileMemory>(c: &M, st: &mut St, t: &mut Tape, cx: &mut Cx) -> Result<(), String> {
    let size = st.model.len();
    if st.host.is_none() {
        return Ok(());
    }
    let off = pick_off(t, size);
    let fits = off as u128 + T::N as u128 <= size as u128;
    let aligned = st.align_base.wrapping_add(off) % std::mem::align_of::<T>() == 0;
    let mutable = t.flag();
    note!(cx, "aligned_as_{}::<{}>({})", if mutable { "mut" } else { "ref" }, T::NAME, off);
    classify_span(size, off, T::N, cx);
    if mutable {
        let data = t.bytes(T::N);
        // SAFETY: the case owns the memory; no other reference or access exists while this one lives.
        match unsafe { c.aligned_as_mut::<T>(off) } {
            Ok(r) => {
                ensure!(fits && aligned, "aligned_as_mut::<{}>({}) granted (fits={}, aligned={})", T::NAME, off, fits, aligned);
                *r = T::from_b(&data);
                st.wr(off, &data, 6);
            }
            Err(e) => ensure!(!(fits && aligned), "aligned_as_mut::<{}>({}) refused ({}) although the request fits in {} bytes and the address is aligned to {}", T::NAME, off, verr(&e), size, std::mem::align_of::<T>()),
        }
    } else {
        // SAFETY: as above.
        match unsafe { c.aligned_as_ref::<T>(off) } {
            Ok(r) => {
                ensure!(fits && aligned, "aligned_as_ref::<{}>({}) granted (fits={}, aligned={})", T::NAME, off, fits, aligned);
                let v = r.to_b();
                ensure!(v[..] == st.model[off..off + T::N], "aligned_as_ref::<{}>({}) shows {}, model {}", T::NAME, off, hexs(&v), hexs(&st.model[off..off + T::N]));
                st.rd_mark(off, T::N, 6, cx);
            }
            Err(e) => ensure!(!(fits && aligned), "aligned_as_ref::<{}>({}) refused ({}) although the request fits in {} bytes and the address is aligned to {}", T::NAME, off, verr(&e), size, std::mem::align_of::<T>()),
        }
    }
    if !(fits && aligned) {
        cx.nt("typed_reference_refused");
    }
    // an atomic reference at the same place
    let a_fits = off as u128 + 4 <= size as u128;
    let a_aligned = st.align_base.wrapping_add(off) % 4 == 0;
    match c.get_atomic_ref::<std::sync::atomic::AtomicU32>(off) {
        Ok(a) => {
            ensure!(a_fits && a_aligned, "get_atomic_ref::<AtomicU32>({}) granted (fits={}, aligned={})", off, a_fits, a_aligned);
            let v = a.load(std::sync::atomic::Ordering::SeqCst).to_ne_bytes();
            ensure!(v[..] == st.model[off..off + 4], "get_atomic_ref::<AtomicU32>({}) loads {}, model {}", off, hexs(&v), hexs(&st.model[off..off + 4]));
            let data = t.bytes(4);
            a.store(u32::from_ne_bytes([data[0], data[1], data[2], data[3]]), std::sync::atomic::Ordering::SeqCst);
            st.wr(off, &data, 7);
        }
        Err(e) => ensure!(!(a_fits && a_aligned), "get_atomic_ref::<AtomicU32>({}) refused ({}) although it fits and is aligned", off, verr(&e)),
    }
    Ok(())
}

fn op_slice_copy<T: Pod, M: VolatileMemory>(c: &M, st: &mut St, t: &mut Tape, cx: &mut Cx) -> Result<(), String> {
    let size = st.model.len();
    let off = t.idx(size + 1);
    let len = match t.below(3) {
        0 => size - off,
        _ => t.idx(size - off + 1),
    };
    let s = c.get_slice(off, len).map_err(|e| format!("get_slice({},{}) on {}: {}", off, len, size, verr(&e)))?;
    let n = len / T::N;
    let bl = pick_buflen(t, n);
    classify_span(size, off, len, cx);
    if t.flag() {
        let filler = T::from_b(&[0xEE; 16]);
        let mut buf = vec![filler; bl];
        note!(cx, "slice[{}..+{}].copy_to::<{}>(buf of {})", off, len, T::NAME, bl);
        let k = s.copy_to(&mut buf);
        let want = bl.min(n);
        ensure!(k == want, "slice[{}..+{}].copy_to::<{}>(buf of {}) returned {}, want {}", off, len, T::NAME, bl, k, want);
        for i in 0..bl {
            let b = buf[i].to_b();
            if i < want {
                let o = off + i * T::N;
                ensure!(b[..] == st.model[o..o + T::N], "slice copy_to element {} = {}, model {}", i, hexs(&b), hexs(&st.model[o..o + T::N]));
            } else {
                ensure!(b == filler.to_b(), "slice copy_to wrote element {} beyond the {} it reported", i, want);
            }
        }
        if want > 0 {
            st.rd_mark(off, want * T::N, 6, cx);
        }
    } else {
        let data = t.bytes(bl * T::N);
        let buf: Vec<T> = (0..bl).map(|i| T::from_b(&data[i * T::N..])).collect();
        note!(cx, "slice[{}..+{}].copy_from::<{}>(buf of {})", off, len, T::NAME, bl);
        s.copy_from(&buf);
        let want = bl.min(n);
        st.wr(off, &data[..want * T::N], 6);
    }
    if bl != n {
        cx.nt("buffer_len_differs");
    }
    Ok(())
}

// ---- Bytes<usize> operations on the container-wide slice ----

fn op_bytes<M: VolatileMemory>(c: &M, st: &mut St, t: &mut Tape, cx: &mut Cx) -> Result<(), String> {
    let size = st.model.len();
    let vs = c.as_volatile_slice();
    ensure!(vs.len() == size, "as_volatile_slice().len() = {}, want {}", vs.len(), size);
    op_bytes_g(&vs, &|o| o, st, t, cx)
}

/// The byte-access entry points on any `Bytes<A>` that covers exactly the container (`at` turns a
/// container offset into its address type).
pub fn op_bytes_g<A: Copy, B: Bytes<A>>(vs: &B, at: &dyn Fn(usize) -> A, st: &mut St, t: &mut Tape, cx: &mut Cx) -> Result<(), String>
where
    B::E: ErrInfo + std::fmt::Debug,
{
    let size = st.model.len();
    let off = pick_off(t, size);
    let remaining = size.saturating_sub(off);
    let op = t.below(8);
    match op {
        0 | 1 => {
            let len = pick_buflen(t, remaining);
            let n = len.min(remaining);
            classify_span(size, off, len, cx);
            if op == 0 {
                let data = t.bytes(len);
                note!(cx, "write({} bytes @ {})", len, off);
                let r = vs.write(&data, at(off));
                if len == 0 {
                    ensure!(matches!(r, Ok(0)), "write(empty @ {}) = {:?}", off, r.map_err(|e| format!("{:?}", e)));
                } else if off >= size {
                    ensure!(r.is_err(), "write({} bytes @ {}) at/past the end of {} returned {:?}", len, off, size, r);
                } else {
                    ensure!(matches!(r, Ok(k) if k == n), "write({} bytes @ {}) on {} returned {:?}, want Ok({})", len, off, size, r.map_err(|e| format!("{:?}", e)), n);
                    st.wr(off, &data[..n], 1);
                }
            } else {
                let mut buf = vec![0xEEu8; len];
                note!(cx, "read({} bytes @ {})", len, off);
                let r = vs.read(&mut buf, at(off));
                if len == 0 {
                    ensure!(matches!(r, Ok(0)), "read(empty @ {}) = {:?}", off, r.map_err(|e| format!("{:?}", e)));
                } else if off >= size {
                    ensure!(r.is_err(), "read({} bytes @ {}) at/past the end of {} returned {:?}", len, off, size, r);
                    ensure!(buf.iter().all(|b| *b == 0xEE), "failed read modified the buffer");
                } else {
                    ensure!(matches!(r, Ok(k) if k == n), "read({} bytes @ {}) on {} returned {:?}, want Ok({})", len, off, size, r.map_err(|e| format!("{:?}", e)), n);
                    ensure!(buf[..n] == st.model[off..off + n], "read({} @ {}) delivered {}, model {}", len, off, hexs(&buf[..n]), hexs(&st.model[off..off + n]));
                    ensure!(buf[n..].iter().all(|b| *b == 0xEE), "read touched the buffer beyond the {} bytes it reported", n);
                    st.rd_mark(off, n, 1, cx);
                }
            }
        }
        2 | 3 | 4 | 5 => {
            // write_slice / read_slice / write_obj / read_obj
            let (len, ty) = if op <= 3 { (pick_buflen(t, remaining), 0) } else { let ty = t.idx(NOBJ); (OBJ_SIZES[ty], ty) };
            let n = len.min(remaining);
            classify_span(size, off, len, cx);
            let is_write = op == 2 || op == 4;
            let data = t.bytes(len);
            let mut rbuf = vec![0xEEu8; len];
            let r: Result<(), B::E> = match op {
                2 => {
                    note!(cx, "write_slice({} @ {})", len, off);
                    vs.write_slice(&data, at(off))
                }
                3 => {
                    note!(cx, "read_slice({} @ {})", len, off);
                    vs.read_slice(&mut rbuf, at(off))
                }
                4 => {
                    note!(cx, "write_obj::<{}>(@ {})", OBJ_NAMES[ty], off);
                    write_obj_sel(vs, ty, &data, at(off))
                }
                _ => {
                    note!(cx, "read_obj::<{}>(@ {})", OBJ_NAMES[ty], off);
                    match read_obj_sel(vs, ty, at(off)) {
                        Ok(v) => {
                            rbuf.copy_from_slice(&v);
                            Ok(())
                        }
                        Err(e) => Err(e),
                    }
                }
            };
            if len == 0 {
                ensure!(r.is_ok(), "empty slice access @ {} returned {:?}", off, r.map_err(|e| format!("{:?}", e)));
            } else if off >= size {
                ensure!(r.is_err(), "slice/object access of {} bytes at/past the end ({} of {}) succeeded", len, off, size);
            } else if n == len {
                ensure!(r.is_ok(), "slice/object access {} @ {} fits in {} but returned {:?}", len, off, size, r.map_err(|e| format!("{:?}", e)));
                if is_write {
                    st.wr(off, &data, 1);
                } else {
                    ensure!(rbuf[..] == st.model[off..off + len], "slice/object read {} @ {} = {}, model {}", len, off, hexs(&rbuf), hexs(&st.model[off..off + len]));
                    st.rd_mark(off, len, 1, cx);
                }
            } else {
                ensure!(r.as_ref().err().and_then(|e| e.partial()) == Some((len, n)),
                    "slice/object access {} @ {} on {} returned {:?}, want PartialBuffer{{expected:{},completed:{}}}", len, off, size, r.map_err(|e| format!("{:?}", e)), len, n);
                if is_write {
                    st.wr(off, &data[..n], 1);
                } else if op == 3 {
                    ensure!(rbuf[..n] == st.model[off..off + n], "partial read_slice prefix differs from the model");
                    ensure!(rbuf[n..].iter().all(|b| *b == 0xEE), "partial read_slice touched the buffer beyond the completed prefix");
                }
            }
        }
        _ => {
            // atomic store / load
            let ty = t.idx(NATOM);
            let sz = ATOM_SIZES[ty];
            let fits = off as u128 + sz as u128 <= size as u128;
            let aligned = st.align_base.wrapping_add(off) % sz == 0;
            let data = t.bytes(8);
            classify_span(size, off, sz, cx);
            if op == 6 {
                let ord = t.pick(&STORE_ORDERS);
                note!(cx, "store::<{}>(@ {})", ATOM_NAMES[ty], off);
                let r = store_sel(vs, ty, &data, at(off), ord);
                if fits && aligned {
                    ensure!(r.is_ok(), "aligned store::<{}>(@ {}) on {} returned {:?}", ATOM_NAMES[ty], off, size, r.map_err(|e| format!("{:?}", e)));
                    st.wr(off, &data[..sz], 7);
                } else {
                    ensure!(r.is_err(), "store::<{}>(@ {}) on {} succeeded (fits={}, aligned={})", ATOM_NAMES[ty], off, size, fits, aligned);
                    cx.nt("atomic_refused");
                }
            } else {
                let ord = t.pick(&LOAD_ORDERS);
                note!(cx, "load::<{}>(@ {})", ATOM_NAMES[ty], off);
                let r = load_sel(vs, ty, at(off), ord);
                if fits && aligned {
                    ensure!(matches!(&r, Ok(v) if v[..] == st.model[off..off + sz]), "load::<{}>(@ {}) = {:?}, model {}", ATOM_NAMES[ty], off, r.map_err(|e| format!("{:?}", e)), hexs(&st.model[off..off + sz]));
                    st.rd_mark(off, sz, 7, cx);
                } else {
                    ensure!(r.is_err(), "load::<{}>(@ {}) on {} succeeded (fits={}, aligned={})", ATOM_NAMES[ty], off, size, fits, aligned);
                    cx.nt("atomic_refused");
                }
            }
        }
    }
    Ok(())
}

/// Stream transfers into / out of the container (in-memory adapters and a real descriptor).
fn op_stream<M: VolatileMemory>(c: &M, st: &mut St, t: &mut Tape, cx: &mut Cx) -> Result<(), String> {
    let vs = c.as_volatile_slice();
    op_stream_g(&vs, &|o| o, st, t, cx)
}

pub fn op_stream_g<A: Copy, B: Bytes<A>>(vs: &B, at: &dyn Fn(usize) -> A, st: &mut St, t: &mut Tape, cx: &mut Cx) -> Result<(), String>
where
    B::E: ErrInfo + std::fmt::Debug,
{
    use std::io::{Seek, SeekFrom};
    use std::os::unix::fs::FileExt;
    let size = st.model.len();
    let off = t.idx(size + 1);
    let rem = size - off;
    let count = match t.below(4) {
        0 => rem,
        1 => rem + 1 + t.idx(3),
        _ => t.idx(rem + 1),
    };
    let kind = t.below(3); // 0 slice/vec, 1 cursor, 2 file
    classify_span(size, off, count, cx);
    match t.below(4) {
        0 | 1 => {
            // read_volatile_from / read_exact_volatile_from
            let exact = t.flag();
            let srclen = match t.below(3) {
                0 => count,
                1 => count + 2,
                _ => t.idx(count + 1),
            };
            let data = t.bytes(srclen);
            note!(cx, "{}(@ {}, src kind {} len {}, count {})", if exact { "read_exact_volatile_from" } else { "read_volatile_from" }, off, kind, srclen, count);
            let fits = count <= rem;
            let (ok, moved): (bool, usize) = {
                let mut run = |src: &mut dyn FnMut(bool) -> Result<usize, B::E>| -> (bool, usize) {
                    match src(exact) {
                        Ok(n) => (true, n),
                        Err(_) => (false, 0),
                    }
                };
                match kind {
                    0 => {
                        let mut s: &[u8] = &data;
                        let r = run(&mut |ex| if ex { vs.read_exact_volatile_from(at(off), &mut s, count).map(|_| count) } else { vs.read_volatile_from(at(off), &mut s, count) });
                        (r.0, data.len() - s.len())
                    }
                    1 => {
                        let mut s = std::io::Cursor::new(&data[..]);
                        let r = run(&mut |ex| if ex { vs.read_exact_volatile_from(at(off), &mut s, count).map(|_| count) } else { vs.read_volatile_from(at(off), &mut s, count) });
                        (r.0, s.position() as usize)
                    }
                    _ => {
                        let mut f = memfd(0);
                        f.write_all_at(&data, 0).map_err(|e| e.to_string())?;
                        let r = run(&mut |ex| if ex { vs.read_exact_volatile_from(at(off), &mut f, count).map(|_| count) } else { vs.read_volatile_from(at(off), &mut f, count) });
                        (r.0, f.seek(SeekFrom::Current(0)).map_err(|e| e.to_string())? as usize)
                    }
                }
            };
            // expected number of bytes stored
            let want = if exact {
                if !fits { 0 } else if kind == 2 { count.min(srclen) } else if srclen >= count { count } else { 0 }
            } else {
                count.min(rem).min(srclen)
            };
            if exact {
                ensure!(ok == (fits && srclen >= count), "read_exact_volatile_from(@ {}, count {}) on {} bytes with a source of {} returned ok={}", off, count, size, srclen, ok);
            } else {
                ensure!(ok, "read_volatile_from(@ {}, count {}) failed", off, count);
            }
            ensure!(moved == want, "stream read consumed {} source bytes, expected {} (count {}, room {}, source {})", moved, want, count, rem, srclen);
            st.wr(off, &data[..want], 8);
        }
        _ => {
            // write_volatile_to / write_all_volatile_to
            let all = t.flag();
            note!(cx, "{}(@ {}, sink kind {}, count {})", if all { "write_all_volatile_to" } else { "write_volatile_to" }, off, kind, count);
            let fits = count <= rem;
            let want = if all { if fits { count } else { 0 } } else { count.min(rem) };
            let (ok, got): (bool, Vec<u8>) = match kind {
                0 => {
                    let mut v: Vec<u8> = Vec::new();
                    let r = if all { vs.write_all_volatile_to(at(off), &mut v, count).map(|_| count) } else { vs.write_volatile_to(at(off), &mut v, count) };
                    (r.is_ok(), v)
                }
                1 => {
                    let mut store = vec![0u8; count + 4];
                    let pos;
                    let r;
                    {
                        let mut cur = std::io::Cursor::new(&mut store[..]);
                        r = if all { vs.write_all_volatile_to(at(off), &mut cur, count).map(|_| count) } else { vs.write_volatile_to(at(off), &mut cur, count) };
                        pos = cur.position() as usize;
                    }
                    store.truncate(pos);
                    (r.is_ok(), store)
                }
                _ => {
                    let mut f = memfd(0);
                    let r = if all { vs.write_all_volatile_to(at(off), &mut f, count).map(|_| count) } else { vs.write_volatile_to(at(off), &mut f, count) };
                    (r.is_ok(), pread_all(&f, 0, count + 8))
                }
            };
            ensure!(ok == (!all || fits), "stream write (all={}) @ {} count {} on {} bytes returned ok={}", all, off, count, size, ok);
            ensure!(got[..] == st.model[off..off + want], "stream write delivered {} ({} bytes), the model has {} ({} bytes)", hexs(&got), got.len(), hexs(&st.model[off..off + want]), want);
            if want > 0 {
                st.rd_mark(off, want, 8, cx);
            }
        }
    }
    Ok(())
}

/// Derived views of a view: split_at / offset / subslice of a slice of the container; each piece
/// reads the model's bytes and writes land where the model says.
fn op_split<M: VolatileMemory>(c: &M, st: &mut St, t: &mut Tape, cx: &mut Cx) -> Result<(), String> {
    let size = st.model.len();
    let off = t.idx(size + 1);
    let len = t.idx(size - off + 1);
    let s = c.get_slice(off, len).map_err(|e| format!("get_slice({},{}) on {}: {}", off, len, size, verr(&e)))?;
    let m = t.idx(len + 1);
    note!(cx, "slice[{}..+{}].split_at({})", off, len, m);
    let (a, b) = s.split_at(m).map_err(|e| format!("split_at({}) of {} bytes: {}", m, len, verr(&e)))?;
    ensure!(a.len() == m && b.len() == len - m, "split_at({}) of {} bytes gave halves of {} and {} bytes", m, len, a.len(), b.len());
    ensure!(s.split_at(len + 1).is_err(), "split_at(len + 1) succeeded");
    for (name, piece, po) in [("first half", &a, off), ("second half", &b, off + m)] {
        let pl = piece.len();
        ensure!(piece.ptr_guard().len() == pl, "{}: guard of {} bytes for {} bytes", name, piece.ptr_guard().len(), pl);
        let k = pl.min(40);
        let mut got = vec![0u8; k];
        piece.read_slice(&mut got, 0).map_err(|e| format!("{}: read_slice: {}", name, verr(&e)))?;
        ensure!(got[..] == st.model[po..po + k], "split_at({}) {} reads {}, model {}", m, name, hexs(&got), hexs(&st.model[po..po + k]));
        {
            // the piece converted into a byte array (From<VolatileSlice> for VolatileArrayRef<u8>)
            let arr: vm_memory::VolatileArrayRef<'_, u8, _> = piece.clone().into();
            ensure!(arr.len() == pl, "{}: VolatileArrayRef::from(slice).len() = {}, the slice has {} bytes", name, arr.len(), pl);
            ensure!(arr.ptr_guard().len() == pl && arr.ptr_guard_mut().len() == pl, "{}: VolatileArrayRef::from(slice): guard of {} bytes for {} bytes", name, arr.ptr_guard().len(), pl);
            let mut got = vec![0u8; k];
            let n = arr.copy_to(&mut got);
            ensure!(n == k && got[..] == st.model[po..po + k], "{}: VolatileArrayRef::from(slice).copy_to moved {} bytes and reads {}, model {}", name, n, hexs(&got), hexs(&st.model[po..po + k]));
            if k > 0 {
                let i = t.idx(pl);
                ensure!(arr.load(i) == st.model[po + i], "{}: VolatileArrayRef::from(slice).load({}) = {:#x}, model {:#x}", name, i, arr.load(i), st.model[po + i]);
                if t.flag() {
                    let v = t.bytes(1);
                    arr.store(i, v[0]);
                    st.wr(po + i, &v, 9);
                    let back = arr.to_slice();
                    let mut one = [0u8; 1];
                    back.read_slice(&mut one, i).map_err(|e| format!("{}: array.to_slice().read_slice: {}", name, verr(&e)))?;
                    ensure!(one[0] == v[0], "{}: VolatileArrayRef::from(slice).to_slice() reads {:#x} at {} after store({:#x})", name, one[0], i, v[0]);
                }
            }
        }
        if k > 0 && t.flag() {
            // a further derivation, then a write through it
            let o2 = t.idx(pl);
            let sub = if t.flag() { piece.offset(o2) } else { piece.subslice(o2, pl - o2) }.map_err(|e| format!("{}: offset/subslice({}): {}", name, o2, verr(&e)))?;
            let w = (pl - o2).min(9);
            let data = t.bytes(w);
            sub.write_slice(&data, 0).map_err(|e| format!("{}: write through a derived view: {}", name, verr(&e)))?;
            st.wr(po + o2, &data, 9);
        }
    }
    cx.nt("derived_view_of_a_view");
    Ok(())
}

fn op_slice_to_slice<M: VolatileMemory>(c: &M, st: &mut St, t: &mut Tape, cx: &mut Cx) -> Result<(), String> {
    let size = st.model.len();
    let soff = t.idx(size + 1);
    let slen = t.idx(size - soff + 1);
    let doff = t.idx(size + 1);
    let dlen = t.idx(size - doff + 1);
    note!(cx, "slice[{}..+{}].copy_to_volatile_slice(slice[{}..+{}])", soff, slen, doff, dlen);
    let s = c.get_slice(soff, slen).map_err(|e| verr(&e))?;
    let d = c.get_slice(doff, dlen).map_err(|e| verr(&e))?;
    s.copy_to_volatile_slice(d);
    let cnt = slen.min(dlen);
    let src: Vec<u8> = st.model[soff..soff + cnt].to_vec();
    st.wr(doff, &src, 5);
    if cnt > 0 && doff < soff + cnt && soff < doff + cnt {
        cx.nt("overlapping_slice_copy");
    }
    if slen != dlen {
        cx.nt("buffer_len_differs");
    }
    Ok(())
}

pub fn history<M: VolatileMemory>(c: &M, host: *mut u8, size: usize, check_frame: &dyn Fn() -> Result<(), String>, t: &mut Tape, cx: &mut Cx) -> Result<(), String> {
    history_raw(c, &PtrRaw(host, size), size, check_frame, t, cx)
}

pub fn history_raw<M: VolatileMemory>(c: &M, raw: &dyn Raw, size: usize, check_frame: &dyn Fn() -> Result<(), String>, t: &mut Tape, cx: &mut Cx) -> Result<(), String> {
    history_alt::<M, ()>(c, None, raw, size, check_frame, t, cx)
}

/// `alt`: the guest region whose mapping `c` is; its own byte-access interface (addressed by
/// region offsets) is then exercised on the same model, interleaved with the slice-level one.
pub fn history_alt<M: VolatileMemory, B: vm_memory::bitmap::Bitmap>(c: &M, alt: Option<&vm_memory::GuestRegionMmap<B>>, raw: &dyn Raw, size: usize, check_frame: &dyn Fn() -> Result<(), String>, t: &mut Tape, cx: &mut Cx) -> Result<(), String> {
    ensure!(c.len() == size && c.is_empty() == (size == 0), "len()/is_empty() of the container");
    let init: Vec<u8> = (0..size).map(|i| (i as u8).wrapping_mul(7).wrapping_add(3)).collect();
    raw.write_all(&init);
    let mut st = St { model: init, writer: vec![0; size], host: raw.host(), align_base: raw.align_base() };
    let nops = 1 + t.idx(30);
    for i in 0..nops {
        if t.exhausted() && i > 0 {
            break;
        }
        let via_region = match alt {
            Some(_) => t.flag(),
            None => false,
        };
        match t.below(13) {
            12 => op_split(c, &mut st, t, cx)?,
            11 => {
                let sel = t.idx(NPOD);
                with_pod!(sel, op_typed, c, &mut st, t, cx)?
            }
            10 if via_region => {
                cx.nt("region_level_interface");
                note!(cx, "[region] ");
                op_stream_g(alt.unwrap(), &|o| vm_memory::MemoryRegionAddress(o as u64), &mut st, t, cx)?
            }
            0..=3 if via_region => {
                cx.nt("region_level_interface");
                note!(cx, "[region] ");
                op_bytes_g(alt.unwrap(), &|o| vm_memory::MemoryRegionAddress(o as u64), &mut st, t, cx)?
            }
            10 => op_stream(c, &mut st, t, cx)?,
            0..=3 => op_bytes(c, &mut st, t, cx)?,
            4 | 5 => {
                let sel = t.idx(NPOD);
                with_pod!(sel, op_array, c, &mut st, t, cx)?
            }
            6 => {
                let sel = t.idx(NPOD);
                with_pod!(sel, op_ref, c, &mut st, t, cx)?
            }
            7 | 8 => {
                let sel = t.idx(NPOD);
                with_pod!(sel, op_slice_copy, c, &mut st, t, cx)?
            }
            _ => op_slice_to_slice(c, &mut st, t, cx)?,
        }
        let now = raw.read_all();
        for o in 0..size {
            let got = now[o];
            if got != st.model[o] {
                return Err(format!("after step {}: container byte {} is {:#04x}, the model has {:#04x}", i, o, got, st.model[o]));
            }
        }
        check_frame().map_err(|e| format!("after step {}: {}", i, e))?;
    }
    Ok(())
}

fn run_slice(t: &mut Tape, cx: &mut Cx) -> Result<(), String> {
    let size = match t.below(4) {
        0 => t.idx(17),
        _ => t.idx(97),
    };
    let align = t.idx(16);
    let fr = Framed::new(size, align);
    note!(cx, "VolatileSlice of {} bytes, base % 16 = {}", size, align);
    if align % 8 != 0 {
        cx.label("unaligned_base");
    }
    let s = fr.slice();
    history(&s, fr.ptr(), size, &|| fr.canaries_ok(), t, cx)
}

#[cfg(not(feature = "xen"))]
fn run_region(t: &mut Tape, cx: &mut Cx) -> Result<(), String> {
    use vm_memory::MmapRegion;
    let size = match t.below(5) {
        0 => 1 + t.idx(64),
        1 => 4096,
        2 => 4096 - 1 - t.idx(16),
        3 => 4096 + 1 + t.idx(16),
        _ => 8192 - t.idx(3),
    };
    let r = MmapRegion::<()>::new(size).map_err(|e| format!("MmapRegion::new({}): {:?}", size, e))?;
    note!(cx, "MmapRegion of {} bytes", size);
    cx.label("mmap_region");
    let host = r.as_ptr();
    let slack = (size.div_ceil(4096) * 4096 - size).min(64);
    for o in 0..slack {
        // SAFETY: rest of the last page.
        unsafe { host.add(size + o).write_volatile(0x5C) };
    }
    let chk = || -> Result<(), String> {
        for o in 0..slack {
            // SAFETY: rest of the last page.
            let b = unsafe { host.add(size + o).read_volatile() };
            if b != 0x5C {
                return Err(format!("byte {} past the end of the region was modified ({:#04x})", o, b));
            }
        }
        Ok(())
    };
    // wrapped into a guest region: the region's own byte-access interface (addressed by region
    // offsets) runs on the same model, interleaved with the slice-level one
    let gr = vm_memory::GuestRegionMmap::new(r, vm_memory::GuestAddress(0x10_0000 * (1 + t.below(3)))).map_err(|e| format!("{:?}", e))?;
    history_alt(&*gr, Some(&gr), &PtrRaw(host, size), size, &chk, t, cx)
}

#[cfg(feature = "xen")]
fn run_region(_t: &mut Tape, _cx: &mut Cx) -> Result<(), String> {
    Ok(())
}

/// xen build: the same histories over emulated Unix / foreign / grant regions, in particular
/// regions mapped on demand (the harness shares this run with C17, which adds the device-side
/// conditions; the model comparison after every step is the C04 oracle).
#[cfg(feature = "xen")]
fn run_xen(t: &mut Tape, cx: &mut Cx) -> Result<(), String> {
    crate::xen_emul::run_c17_history(t, cx)
}

#[cfg(not(feature = "xen"))]
fn run_xen(_t: &mut Tape, _cx: &mut Cx) -> Result<(), String> {
    Ok(())
}

pub fn property() -> Property {
    Property {
        id: "C04",
        rule: "a case = one container (VolatileSlice of 0..96 bytes at any base alignment mod 16 inside a canary frame, or an MmapRegion of 1 byte..2 pages +- odd, addressed as a slice and through the byte-access interface of the guest region around it; xen build: emulated Unix / foreign / grant regions incl. regions mapped on demand, judged through the device file) + a history of 1..30 operations over every accessor kind (Bytes write/read/write_slice/read_slice/write_obj/read_obj/store/load, get_ref store/load/to_slice, get_array_ref load/store/ref_at/copy_to/copy_from/copy_to_volatile_slice (inside the container, to and from memory outside it)/to_slice, aligned_as_ref/aligned_as_mut/get_atomic_ref (granted iff fitting and aligned), slice copy_to/copy_from for 11 element types, slice-to-slice copies incl. overlapping, split_at / offset / subslice of a slice of the container, a slice converted into a byte array with From) with offsets inside/touching/crossing the end and buffer lengths around 7..9 and around the remaining length; model compared with the raw memory and the frame after every step; non-trivial = op touches or crosses the container end, length in 7..=9, buffer length != container length, overlapping copy, refused atomic, or a read through a route different from the one that wrote the bytes; distinct = decoded (container, history)",
        assumptions: &["values are encoded with to_ne/le/be_bytes, not through ByteValued::as_slice", "zero-sized element types are C18's business"],
        subchecks: vec![
            SubCheck { name: "slice", builds: &[Build::Std], kind: Kind::Random { quick: 60_000, thorough: 3_000_000, max_words: 260 }, run: run_slice },
            SubCheck { name: "region", builds: &[Build::Std], kind: Kind::Random { quick: 15_000, thorough: 600_000, max_words: 260 }, run: run_region },
            SubCheck { name: "xen_regions", builds: &[Build::Xen], kind: Kind::Random { quick: 5_000, thorough: 200_000, max_words: 200 }, run: run_xen },
        ],
    }
}
