//! Type-dispatch helpers: write/read an object of a tape-selected plain-data type through any
//! `Bytes<A>` implementation, with the byte encoding computed independently of `ByteValued`.

use vm_memory::{Be16, Be32, Be64, ByteValued, Bytes, Le16, Le32, Le64};

pub const NOBJ: usize = 12;
pub const OBJ_NAMES: [&str; NOBJ] = [
    "u8", "u16", "u32", "u64", "u128", "i16", "usize", "[u8;3]", "[u8;13]", "[u16;5]", "Le32", "Be64",
];
pub const OBJ_SIZES: [usize; NOBJ] = [1, 2, 4, 8, 16, 2, 8, 3, 13, 10, 4, 8];

fn take<const N: usize>(b: &[u8]) -> [u8; N] {
    let mut a = [0u8; N];
    a.copy_from_slice(&b[..N]);
    a
}

/// Write an object of type `ty` whose in-memory representation is `bytes[..size]`.
pub fn write_obj_sel<A, M: Bytes<A>>(m: &M, ty: usize, bytes: &[u8], addr: A) -> Result<(), M::E> {
    match ty {
        0 => m.write_obj(bytes[0], addr),
        1 => m.write_obj(u16::from_ne_bytes(take(bytes)), addr),
        2 => m.write_obj(u32::from_ne_bytes(take(bytes)), addr),
        3 => m.write_obj(u64::from_ne_bytes(take(bytes)), addr),
        4 => m.write_obj(u128::from_ne_bytes(take(bytes)), addr),
        5 => m.write_obj(i16::from_ne_bytes(take(bytes)), addr),
        6 => m.write_obj(usize::from_ne_bytes(take(bytes)), addr),
        7 => m.write_obj(take::<3>(bytes), addr),
        8 => m.write_obj(take::<13>(bytes), addr),
        9 => {
            let mut a = [0u16; 5];
            for i in 0..5 {
                a[i] = u16::from_ne_bytes([bytes[2 * i], bytes[2 * i + 1]]);
            }
            m.write_obj(a, addr)
        }
        10 => m.write_obj(Le32::from(u32::from_le_bytes(take(bytes))), addr),
        _ => m.write_obj(Be64::from(u64::from_be_bytes(take(bytes))), addr),
    }
}

/// Read an object of type `ty`; returns its in-memory representation.
pub fn read_obj_sel<A, M: Bytes<A>>(m: &M, ty: usize, addr: A) -> Result<Vec<u8>, M::E> {
    Ok(match ty {
        0 => vec![m.read_obj::<u8>(addr)?],
        1 => m.read_obj::<u16>(addr)?.to_ne_bytes().to_vec(),
        2 => m.read_obj::<u32>(addr)?.to_ne_bytes().to_vec(),
        3 => m.read_obj::<u64>(addr)?.to_ne_bytes().to_vec(),
        4 => m.read_obj::<u128>(addr)?.to_ne_bytes().to_vec(),
        5 => m.read_obj::<i16>(addr)?.to_ne_bytes().to_vec(),
        6 => m.read_obj::<usize>(addr)?.to_ne_bytes().to_vec(),
        7 => m.read_obj::<[u8; 3]>(addr)?.to_vec(),
        8 => m.read_obj::<[u8; 13]>(addr)?.to_vec(),
        9 => {
            let a = m.read_obj::<[u16; 5]>(addr)?;
            a.iter().flat_map(|x| x.to_ne_bytes()).collect()
        }
        10 => m.read_obj::<Le32>(addr)?.to_native().to_le_bytes().to_vec(),
        _ => m.read_obj::<Be64>(addr)?.to_native().to_be_bytes().to_vec(),
    })
}

pub const NATOM: usize = 8;
pub const ATOM_NAMES: [&str; NATOM] = ["u8", "u16", "u32", "u64", "i8", "i32", "usize", "i64"];
pub const ATOM_SIZES: [usize; NATOM] = [1, 2, 4, 8, 1, 4, 8, 8];

use std::sync::atomic::Ordering;

pub fn store_sel<A, M: Bytes<A>>(m: &M, ty: usize, bytes: &[u8], addr: A, order: Ordering) -> Result<(), M::E> {
    match ty {
        0 => m.store(bytes[0], addr, order),
        1 => m.store(u16::from_ne_bytes(take(bytes)), addr, order),
        2 => m.store(u32::from_ne_bytes(take(bytes)), addr, order),
        3 => m.store(u64::from_ne_bytes(take(bytes)), addr, order),
        4 => m.store(bytes[0] as i8, addr, order),
        5 => m.store(i32::from_ne_bytes(take(bytes)), addr, order),
        6 => m.store(usize::from_ne_bytes(take(bytes)), addr, order),
        _ => m.store(i64::from_ne_bytes(take(bytes)), addr, order),
    }
}

pub fn load_sel<A, M: Bytes<A>>(m: &M, ty: usize, addr: A, order: Ordering) -> Result<Vec<u8>, M::E> {
    Ok(match ty {
        0 => vec![m.load::<u8>(addr, order)?],
        1 => m.load::<u16>(addr, order)?.to_ne_bytes().to_vec(),
        2 => m.load::<u32>(addr, order)?.to_ne_bytes().to_vec(),
        3 => m.load::<u64>(addr, order)?.to_ne_bytes().to_vec(),
        4 => vec![m.load::<i8>(addr, order)? as u8],
        5 => m.load::<i32>(addr, order)?.to_ne_bytes().to_vec(),
        6 => m.load::<usize>(addr, order)?.to_ne_bytes().to_vec(),
        _ => m.load::<i64>(addr, order)?.to_ne_bytes().to_vec(),
    })
}

pub const STORE_ORDERS: [Ordering; 3] = [Ordering::Relaxed, Ordering::Release, Ordering::SeqCst];
pub const LOAD_ORDERS: [Ordering; 3] = [Ordering::Relaxed, Ordering::Acquire, Ordering::SeqCst];

// silence unused warnings for wrappers only used by name
#[allow(dead_code)]
fn _unused(_: Le16, _: Be16, _: Be32, _: Le64) {}
#[allow(dead_code)]
fn _bv<T: ByteValued>() {}
