//! The choice tape: every generated case of every property is a pure function of a `Vec<u64>`.
//!
//! * random mode: `below(n)` maps a word monotonically onto `0..n` (`(w*n)>>64`), so shrinking a
//!   word towards 0 moves the choice towards alternative 0, which decoders reserve for the
//!   simplest alternative. Reading past the end yields 0.
//! * raw mode (exhaustive enumerations and hand-written regression tapes): a word *is* the
//!   index (clamped to `n-1`).
//!
//! Every decoded choice is folded into a running hash, which is the identity of the decoded case
//! (used for counting distinct cases).

#[derive(Clone)]
pub struct Tape<'a> {
    words: &'a [u64],
    pos: usize,
    raw: bool,
    hash: u64,
}

#[inline]
fn mix(mut z: u64) -> u64 {
    z = z.wrapping_add(0x9e3779b97f4a7c15);
    z = (z ^ (z >> 30)).wrapping_mul(0xbf58476d1ce4e5b9);
    z = (z ^ (z >> 27)).wrapping_mul(0x94d049bb133111eb);
    z ^ (z >> 31)
}

pub fn splitmix(state: &mut u64) -> u64 {
    *state = state.wrapping_add(0x9e3779b97f4a7c15);
    let mut z = *state;
    z = (z ^ (z >> 30)).wrapping_mul(0xbf58476d1ce4e5b9);
    z = (z ^ (z >> 27)).wrapping_mul(0x94d049bb133111eb);
    z ^ (z >> 31)
}

impl<'a> Tape<'a> {
    pub fn new(words: &'a [u64], raw: bool) -> Self {
        Tape {
            words,
            pos: 0,
            raw,
            hash: 0x243f6a8885a308d3,
        }
    }

    pub fn is_raw(&self) -> bool {
        self.raw
    }

    /// Number of words consumed so far (including virtual zeros past the end).
    pub fn consumed(&self) -> usize {
        self.pos
    }

    pub fn exhausted(&self) -> bool {
        self.pos >= self.words.len()
    }

    /// Identity of the decoded case so far.
    pub fn key(&self) -> u64 {
        self.hash
    }

    /// Fold an additional decoded value into the case identity.
    #[inline]
    pub fn note(&mut self, v: u64) {
        self.hash = mix(self.hash ^ v);
    }

    #[inline]
    fn next(&mut self) -> u64 {
        let w = self.words.get(self.pos).copied().unwrap_or(0);
        self.pos += 1;
        w
    }

    /// A full-range 64-bit value.
    #[inline]
    pub fn word(&mut self) -> u64 {
        let w = self.next();
        self.note(w);
        w
    }

    /// A value in `0..n` (`n >= 1`).
    #[inline]
    pub fn below(&mut self, n: u64) -> u64 {
        debug_assert!(n >= 1);
        let w = self.next();
        let v = if self.raw {
            w.min(n - 1)
        } else {
            ((w as u128 * n as u128) >> 64) as u64
        };
        self.note(v);
        v
    }

    #[inline]
    pub fn idx(&mut self, n: usize) -> usize {
        self.below(n as u64) as usize
    }

    /// A value in `lo..=hi`.
    #[inline]
    pub fn range(&mut self, lo: u64, hi: u64) -> u64 {
        debug_assert!(lo <= hi);
        if lo == 0 && hi == u64::MAX {
            return self.word();
        }
        lo + self.below(hi - lo + 1)
    }

    #[inline]
    pub fn flag(&mut self) -> bool {
        self.below(2) == 1
    }

    /// `true` with probability `num/den`; alternative 0 (simplest) is `false`.
    #[inline]
    pub fn chance(&mut self, num: u64, den: u64) -> bool {
        // Map so that small words give false.
        self.below(den) >= den - num
    }

    #[inline]
    pub fn pick<T: Copy>(&mut self, xs: &[T]) -> T {
        xs[self.idx(xs.len())]
    }

    /// `n` pseudo-random bytes derived from a single tape word.
    pub fn bytes(&mut self, n: usize) -> Vec<u8> {
        let mut s = self.word();
        let mut v = Vec::with_capacity(n);
        while v.len() < n {
            let x = splitmix(&mut s);
            for b in x.to_le_bytes() {
                if v.len() < n {
                    v.push(b);
                }
            }
        }
        v
    }

    /// Boundary-weighted size relative to a reference length `len` (full `usize` domain).
    pub fn size_near(&mut self, len: u64) -> u64 {
        let class = if self.chance(1, 2) { 1 + self.below(9) } else { 0 };
        let k = || 0u64;
        let _ = k;
        match class {
            0 => self.below(len.saturating_add(1).max(1)),
            1 => 0,
            2 => len.saturating_sub(1),
            3 => len,
            4 => len.saturating_add(1),
            5 => len.saturating_mul(2),
            6 => {
                let k = self.below(8);
                (1u64 << 32).wrapping_add(k).wrapping_sub(4)
            }
            7 => {
                let k = self.below(8);
                (isize::MAX as u64).wrapping_add(k).wrapping_sub(4)
            }
            8 => u64::MAX - self.below(16),
            _ => self.word(),
        }
    }

    /// As `size_near`, with an additional class of values that overflow when added to the
    /// host pointer `base`.
    pub fn size_near_ptr(&mut self, len: u64, base: u64) -> u64 {
        if self.chance(1, 8) {
            let k = self.below(16);
            (u64::MAX - base).wrapping_add(k).wrapping_sub(4)
        } else {
            self.size_near(len)
        }
    }

    /// Boundary-weighted 64-bit address relative to a list of interesting points (region starts,
    /// last addresses, ends ...).
    pub fn addr_near(&mut self, points: &[u64]) -> u64 {
        let class = if points.is_empty() {
            3 + self.below(5)
        } else if self.chance(1, 4) {
            3 + self.below(5)
        } else {
            self.below(3)
        };
        match class {
            0 | 1 | 2 => {
                let p = points[self.idx(points.len())];
                let d = self.below(7) as i64 - 3; // -3..=3
                let d = if class == 0 { d.clamp(-1, 1) } else { d };
                p.wrapping_add(d as u64)
            }
            3 => self.below(8),
            4 => (1u64 << 32).wrapping_add(self.below(8)).wrapping_sub(4),
            5 => (1u64 << 63).wrapping_add(self.below(8)).wrapping_sub(4),
            6 => u64::MAX - self.below(8),
            _ => self.word(),
        }
    }
}

/// Encode an index so that a *random-mode* tape decodes it back with `below(n)`.
pub fn encode_below(i: u64, n: u64) -> u64 {
    // smallest w with (w*n)>>64 == i  <=>  w >= ceil(i*2^64/n)
    let num = (i as u128) << 64;
    let w = (num + (n as u128) - 1) / (n as u128);
    w as u64
}

#[cfg(test)]
mod tests {
    use super::*;
    #[test]
    fn encode_roundtrip() {
        for n in [1u64, 2, 3, 7, 64, 1000, u64::MAX] {
            for i in [0u64, 1, 2, n / 2, n - 1] {
                if i < n {
                    let w = encode_below(i, n);
                    let words = [w];
                    let mut t = Tape::new(&words, false);
                    assert_eq!(t.below(n), i);
                }
            }
        }
    }
}
