//! C12 (run-time half) – a mapping lives exactly as long as something can still reach it.
//! Oracle: the interposed mmap/munmap log against an owner-count model, tag bytes read through
//! every live owner, /proc/self/maps at the end of the history.

use crate::common::memfd;
use crate::engine::*;
use crate::interpose::{self, Ev};
use crate::tape::Tape;
use crate::{ensure, note};
use std::sync::Arc;
use vm_memory::{
    Bytes, FileOffset, GuestAddress, GuestAddressSpace, GuestMemory, GuestMemoryAtomic, GuestMemoryLoadGuard, GuestMemoryMmap,
    GuestMemoryRegion, GuestRegionMmap,
};

const PS: usize = 4096;
type Reg = Arc<GuestRegionMmap<()>>;
type Map = GuestMemoryMmap<()>;

#[derive(Clone, Debug)]
struct RInfo {
    id: usize,
    start: u64,
    size: usize,
    /// length of the mapping the library created (what munmap must be called with)
    map_len: usize,
    host: usize,
    /// mapping owned by the library (false: externally provided raw mapping)
    owned: bool,
    tag: u8,
    kind: &'static str,
    /// Xen grant region mapped on demand: no stable host pointer, every access maps and unmaps
    /// a temporary window
    ondemand: bool,
}

enum Owner {
    Handle(Reg, usize),
    Map(Map, Vec<usize>),
    /// a handle onto a replaceable memory; the shared state is in `atomics`
    Atomic(GuestMemoryAtomic<Map>, usize),
    Guard(GuestMemoryLoadGuard<Map>, Vec<usize>),
    Snapshot(Arc<Map>, Vec<usize>),
}

struct AtomicState {
    /// regions of the currently published map
    current: Vec<usize>,
    handles: usize,
}

struct World {
    regions: Vec<RInfo>,
    owners: Vec<Owner>,
    atomics: Vec<AtomicState>,
    unmapped: Vec<bool>,
    raw_maps: Vec<(usize, usize)>,
    /// scratch file for descriptor transfers
    scratch: std::fs::File,
}

impl World {
    fn refcount(&self, rid: usize) -> usize {
        let mut n = 0;
        for o in &self.owners {
            match o {
                Owner::Handle(_, r) => n += (*r == rid) as usize,
                Owner::Map(_, v) | Owner::Guard(_, v) | Owner::Snapshot(_, v) => n += v.contains(&rid) as usize,
                Owner::Atomic(..) => {}
            }
        }
        for a in &self.atomics {
            if a.handles > 0 && a.current.contains(&rid) {
                n += 1;
            }
        }
        n
    }

    /// judge the log of one step: exactly the regions whose owner count dropped to zero were
    /// unmapped, each once, with exactly their address and size.
    fn settle(&mut self, log: &[Ev], what: &str) -> Result<(), String> {
        let mut expected: Vec<usize> = Vec::new();
        for r in &self.regions {
            if !self.unmapped[r.id] && r.owned && self.refcount(r.id) == 0 {
                expected.push(r.id);
            }
        }
        let mut temps: Vec<(usize, usize)> = Vec::new();
        for e in log {
            if let Ev::Mmap { ret, len, .. } = e {
                if *ret != usize::MAX {
                    // a temporary window of an access to an on-demand region
                    temps.push((*ret, *len));
                }
            }
            if let Ev::Munmap { addr, len, ret } = e {
                if let Some(p) = temps.iter().position(|x| x.0 == *addr && x.1 == *len) {
                    ensure!(*ret == 0, "{}: munmap of a temporary window failed", what);
                    temps.remove(p);
                    continue;
                }
                let hit = self.regions.iter().find(|r| r.host == *addr && !self.unmapped[r.id] || (r.host < addr + len && *addr < r.host + r.map_len && !self.unmapped[r.id]));
                match hit {
                    Some(r) => {
                        ensure!(r.owned, "{}: the library unmapped the externally provided mapping of region {} ({:#x}+{:#x}) with munmap({:#x},{:#x})", what, r.id, r.host, r.size, addr, len);
                        ensure!(*addr == r.host && *len == r.map_len, "{}: munmap({:#x}, {:#x}) does not match the mapping of region {} ({:#x}, {:#x})", what, addr, len, r.id, r.host, r.map_len);
                        ensure!(*ret == 0, "{}: munmap of region {} failed", what, r.id);
                        ensure!(expected.contains(&r.id), "{}: region {} ({} at {:#x}) was unmapped although {} owner(s) can still reach it", what, r.id, r.kind, r.host, self.refcount(r.id));
                        let id = r.id;
                        self.unmapped[id] = true;
                        expected.retain(|x| *x != id);
                    }
                    None => {
                        // a range that belongs to no live region: a second unmap of a dead region?
                        if let Some(r) = self.regions.iter().find(|r| r.host == *addr && self.unmapped[r.id]) {
                            return Err(format!("{}: region {} ({:#x}+{:#x}) was unmapped a second time", what, r.id, r.host, r.size));
                        }
                        // overlapping a raw harness mapping?
                        if let Some(m) = self.raw_maps.iter().find(|m| m.0 < addr + len && *addr < m.0 + m.1) {
                            return Err(format!("{}: munmap({:#x},{:#x}) hits the externally provided mapping {:x?}", what, addr, len, m));
                        }
                    }
                }
            }
        }
        ensure!(expected.is_empty(), "{}: regions {:?} lost their last owner but were not unmapped (leak); log {:x?}", what, expected, log);
        ensure!(temps.is_empty(), "{}: mappings {:x?} were created and not released", what, temps);
        Ok(())
    }

    fn read_tags(&self) -> Result<(), String> {
        for (oi, o) in self.owners.iter().enumerate() {
            let check_map = |m: &Map, v: &Vec<usize>| -> Result<(), String> {
                ensure!(m.num_regions() == v.len(), "owner {}: map lists {} regions, model {}", oi, m.num_regions(), v.len());
                for rid in v {
                    let r = &self.regions[*rid];
                    for a in [r.start, r.start + r.size as u64 - 1] {
                        let b: u8 = m.read_obj(GuestAddress(a)).map_err(|e| format!("owner {}: region {} no longer readable at {:#x}: {:?}", oi, rid, a, e))?;
                        ensure!(b == r.tag, "owner {}: region {} reads {:#04x} at {:#x}, tag is {:#04x}", oi, rid, b, a, r.tag);
                    }
                    {
                        // stream the first bytes out to a descriptor and a few bytes in from one:
                        // the kernel reads / writes the region's memory during the system call
                        use std::os::unix::fs::FileExt;
                        let n = r.size.min(8);
                        use std::os::fd::AsFd;
                        let mut f = &self.scratch;
                        let mut bf = self.scratch.as_fd();
                        f.set_len(0).map_err(|e| e.to_string())?;
                        std::io::Seek::rewind(&mut f).map_err(|e| e.to_string())?;
                        m.write_all_volatile_to(GuestAddress(r.start), &mut bf, n).map_err(|e| format!("owner {}: region {} could not be streamed to a file: {:?}", oi, rid, e))?;
                        let mut got = vec![0u8; n];
                        self.scratch.read_exact_at(&mut got, 0).map_err(|e| e.to_string())?;
                        ensure!(got.iter().all(|b| *b == r.tag), "owner {}: region {} streamed {:x?} to a file, tag is {:#04x}", oi, rid, got, r.tag);
                        std::io::Seek::rewind(&mut f).map_err(|e| e.to_string())?;
                        m.read_exact_volatile_from(GuestAddress(r.start), &mut bf, n).map_err(|e| format!("owner {}: region {} could not be filled from a file: {:?}", oi, rid, e))?;
                    }
                    if r.size >= PS + 16 {
                        // accesses that start inside one page and end in the next (reads, and an
                        // element-wise write of what is there already)
                        let a = GuestAddress(r.start + PS as u64 - 16);
                        let mut b = [0u8; 32];
                        m.read_slice(&mut b, a).map_err(|e| format!("owner {}: region {} page-straddling read: {:?}", oi, rid, e))?;
                        ensure!(b.iter().all(|x| *x == r.tag), "owner {}: region {} page-straddling read gives {:x?}, tag {:#04x}", oi, rid, b, r.tag);
                        let vs = m.get_slice(a, 32).map_err(|e| format!("owner {}: region {} get_slice: {:?}", oi, rid, e))?;
                        let ar = vm_memory::VolatileMemory::get_array_ref::<u32>(&vs, 0, 8).map_err(|e| format!("{:?}", e))?;
                        ar.copy_from(&[u32::from_ne_bytes([r.tag; 4]); 8]);
                        let mut back = [0u32; 8];
                        ar.copy_to(&mut back);
                        ensure!(back.iter().all(|x| *x == u32::from_ne_bytes([r.tag; 4])), "owner {}: region {} element-wise copy across a page boundary reads {:x?}", oi, rid, back);
                    }
                    if r.size >= 4 {
                        let v: u32 = m.load(GuestAddress(r.start), std::sync::atomic::Ordering::Relaxed).map_err(|e| format!("owner {}: region {} atomic load: {:?}", oi, rid, e))?;
                        ensure!(v == u32::from_ne_bytes([r.tag; 4]), "owner {}: region {} atomic load reads {:#x}, tag is {:#04x}", oi, rid, v, r.tag);
                    }
                }
                Ok(())
            };
            match o {
                Owner::Handle(h, rid) => {
                    let r = &self.regions[*rid];
                    if r.ondemand {
                        let b: u8 = h.read_obj(vm_memory::MemoryRegionAddress(r.size as u64 - 1)).map_err(|e| format!("handle of region {}: {:?}", rid, e))?;
                        ensure!(b == r.tag, "handle of region {} reads {:#04x}, tag {:#04x}", rid, b, r.tag);
                        continue;
                    }
                    ensure!(h.as_ptr() as usize == r.host, "handle of region {} points elsewhere", rid);
                    // SAFETY: the handle keeps the mapping alive (that is what is being checked;
                    // a wrong early unmap faults here and is attributed to the case by the driver).
                    let b = unsafe { (r.host as *const u8).add(r.size - 1).read_volatile() };
                    ensure!(b == r.tag, "handle of region {} reads {:#04x}, tag {:#04x}", rid, b, r.tag);
                }
                Owner::Map(m, v) => check_map(m, v)?,
                Owner::Guard(g, v) => check_map(g, v)?,
                Owner::Snapshot(s, v) => check_map(s, v)?,
                Owner::Atomic(a, ai) => {
                    let g = a.memory();
                    check_map(&g, &self.atomics[*ai].current)?;
                }
            }
        }
        Ok(())
    }
}

#[cfg(not(feature = "xen"))]
fn create_region(w: &mut World, t: &mut Tape, cx: &mut Cx) -> Result<Reg, String> {
    use vm_memory::mmap::MmapRegionBuilder;
    use vm_memory::MmapRegion;
    let id = w.regions.len();
    let size = t.pick(&[1usize, PS, PS + 1, 2 * PS, 3 * PS - 1, 100]);
    let start = 0x10_0000 * (id as u64 + 1);
    let tag = 0x21 + id as u8;
    let kind = t.below(4);
    let huge = match t.below(4) {
        0 => Some(true),
        1 => Some(false),
        _ => None,
    };
    if t.chance(1, 8) {
        // a creation that has to be refused (the file is shorter than offset + size) leaves no
        // mapping behind: nothing could ever release it
        let f = memfd(PS as u64);
        let off = PS as u64 * t.below(3);
        let before = interpose::peek().len();
        let r = MmapRegion::<()>::from_file(FileOffset::new(f, off), size + PS);
        ensure!(r.is_err(), "a file-backed region reaching past the end of its file was created");
        let log = interpose::peek();
        let left = interpose::live_after(&log[before..]);
        ensure!(left.is_empty(), "a refused creation (file of {:#x} bytes, offset {:#x}, size {:#x}) left mappings behind: {:x?}", PS, off, size + PS, left);
        interpose::drop_tail(before);
        cx.nt("refused_creation");
    }
    let (mapping, owned, kname): (MmapRegion<()>, bool, &'static str) = match kind {
        0 | 1 => (MmapRegion::new(size).map_err(|e| format!("{:?}", e))?, true, "anonymous"),
        2 => {
            let f = memfd((size.div_ceil(PS) * PS) as u64 + 2 * PS as u64);
            // page-aligned offsets, and unaligned ones (which the OS refuses today: then the
            // region simply is not created)
            let off = match t.below(4) {
                0 => 0,
                1 | 2 => PS as u64,
                _ => t.pick(&[0x800u64, 0x123, 0x1a00]),
            };
            let mut b = MmapRegionBuilder::new(size)
                .with_file_offset(FileOffset::new(f, off))
                .with_mmap_prot(libc::PROT_READ | libc::PROT_WRITE)
                .with_mmap_flags(libc::MAP_NORESERVE | libc::MAP_SHARED);
            if let Some(h) = huge {
                b = b.with_hugetlbfs(h);
                if h {
                    cx.nt("hugetlbfs_hint");
                }
            }
            match b.build() {
                Ok(m) => (m, true, "file-backed"),
                Err(e) => {
                    if off % PS as u64 != 0 {
                        cx.count("unaligned_file_offset_refused", 1);
                        // fall back to an anonymous region so that the history goes on
                        (MmapRegion::new(size).map_err(|e| format!("{:?}", e))?, true, "anonymous")
                    } else {
                        return Err(format!("file-backed region (offset {:#x}) could not be created: {:?}", off, e));
                    }
                }
            }
        }
        _ => {
            // externally provided mapping
            let len = size.div_ceil(PS) * PS;
            // SAFETY: harness-owned anonymous mapping (released at the end of the case).
            let p = unsafe { libc::syscall(libc::SYS_mmap, 0usize, len, libc::PROT_READ | libc::PROT_WRITE, libc::MAP_PRIVATE | libc::MAP_ANONYMOUS, -1isize, 0usize) } as usize;
            ensure!(p != usize::MAX, "harness mmap failed");
            w.raw_maps.push((p, len));
            // SAFETY: the range is a valid mapping that outlives the region.
            let r = if t.chance(1, 3) {
                // the caller also names the file behind its mapping (builder only)
                cx.nt("raw_region_with_file_offset");
                unsafe {
                    MmapRegionBuilder::new(size)
                        .with_raw_mmap_pointer(p as *mut u8)
                        .with_file_offset(FileOffset::new(memfd(len as u64), 0))
                        .with_mmap_prot(libc::PROT_READ | libc::PROT_WRITE)
                        .with_mmap_flags(libc::MAP_PRIVATE | libc::MAP_ANONYMOUS)
                        .build()
                }
            } else {
                unsafe { MmapRegion::build_raw(p as *mut u8, size, libc::PROT_READ | libc::PROT_WRITE, libc::MAP_PRIVATE | libc::MAP_ANONYMOUS) }
            }
            .map_err(|e| format!("{:?}", e))?;
            cx.nt("raw_region");
            (r, false, "raw")
        }
    };
    let mut mapping = mapping;
    if kind != 2 {
        if let Some(h) = huge {
            mapping.set_hugetlbfs(h);
        }
    }
    let host = mapping.as_ptr() as usize;
    // SAFETY: fresh mapping of `size` bytes.
    unsafe { std::ptr::write_bytes(host as *mut u8, tag, size) };
    let r = GuestRegionMmap::new(mapping, GuestAddress(start)).map_err(|e| format!("{:?}", e))?;
    w.regions.push(RInfo { id, start, size, map_len: size, host, owned, tag, kind: kname, ondemand: false });
    w.unmapped.push(false);
    Ok(Arc::new(r))
}

#[cfg(feature = "xen")]
fn create_region(w: &mut World, t: &mut Tape, cx: &mut Cx) -> Result<Reg, String> {
    use crate::xen_emul::{build as xbuild, Kind as XKind};
    let id = w.regions.len();
    let size = t.pick(&[1usize, PS, PS + 1, 2 * PS, 3 * PS - 1, 100, 0x800]);
    let start = 0x10_0000 * (id as u64 + 1);
    let tag = 0x21 + id as u8;
    let mut ondemand = false;
    let (r, map_len, kname): (GuestRegionMmap<()>, usize, &'static str) = match t.below(7) {
        0 => (GuestRegionMmap::<()>::from_range(GuestAddress(start), size, None).map_err(|e| format!("{:?}", e))?, size, "xen-unix anonymous"),
        1 => {
            let file = Some(FileOffset::new(memfd((size.div_ceil(PS) * PS) as u64), 0));
            (GuestRegionMmap::<()>::from_range(GuestAddress(start), size, file).map_err(|e| format!("{:?}", e))?, size, "xen-unix file-backed")
        }
        2 => {
            cx.nt("xen_foreign_region");
            (xbuild::<()>(XKind::Foreign, start, size)?.region, size.div_ceil(PS) * PS, "xen-foreign")
        }
        3 | 4 => {
            cx.nt("xen_grant_region");
            (xbuild::<()>(XKind::GrantAdvance, start, size)?.region, size.div_ceil(PS) * PS, "xen-grant (mapped in advance)")
        }
        _ => {
            cx.nt("xen_on_demand_region");
            ondemand = true;
            let xr = xbuild::<()>(XKind::GrantOnDemand, start, size)?;
            xr.raw_write(&vec![tag; size]);
            (xr.region, 0, "xen-grant (mapped on demand)")
        }
    };
    if ondemand {
        // whatever the library mapped while creating the region and kept is memory mapped on
        // behalf of the region (normally nothing)
        let kept = interpose::live_after(&interpose::peek());
        ensure!(kept.len() <= 1, "creating an on-demand region left {} mappings", kept.len());
        let (host, map_len) = kept.first().copied().unwrap_or((0, 0));
        w.regions.push(RInfo { id, start, size, map_len, host, owned: map_len != 0, tag, kind: kname, ondemand });
    } else {
        let host = r.as_ptr() as usize;
        // SAFETY: fresh mapping.
        unsafe { std::ptr::write_bytes(host as *mut u8, tag, size) };
        w.regions.push(RInfo { id, start, size, map_len, host, owned: true, tag, kind: kname, ondemand });
    }
    w.unmapped.push(false);
    Ok(Arc::new(r))
}

fn map_regions(m: &Map, w: &World) -> Vec<usize> {
    m.iter().map(|r| w.regions.iter().find(|x| x.start == r.start_addr().0).map(|x| x.id).unwrap_or(usize::MAX)).collect()
}

fn run(t: &mut Tape, cx: &mut Cx) -> Result<(), String> {
    ensure!(interpose::installed(), "harness: mmap interposer not installed");
    #[cfg(feature = "xen")]
    crate::xen_emul::reset();
    let mut w = World { regions: vec![], owners: vec![], atomics: vec![], unmapped: vec![], raw_maps: vec![], scratch: memfd(0) };
    let nsteps = 2 + t.idx(24);
    let mut last_owner_not_creator = false;
    for step in 0..nsteps {
        if t.exhausted() && step > 2 {
            break;
        }
        interpose::begin();
        let op = if w.owners.is_empty() { 0 } else { t.below(12) };
        let what;
        match op {
            0 | 1 => {
                if w.regions.len() < 8 {
                    let r = create_region(&mut w, t, cx)?;
                    let id = w.regions.len() - 1;
                    what = format!("create region {} ({}, {:#x} bytes)", id, w.regions[id].kind, w.regions[id].size);
                    // the creation itself maps exactly once (owned) or not at all (raw)
                    let log = interpose::take();
                    let n = log.iter().filter(|e| matches!(e, Ev::Mmap { ret, .. } if *ret != usize::MAX)).count();
                    ensure!(n == if w.regions[id].owned { 1 } else { 0 }, "{}: {} mmap calls during creation", what, n);
                    w.owners.push(Owner::Handle(r, id));
                } else {
                    what = "noop".into();
                }
            }
            2 => {
                // build a map from a subset of live handles
                let hs: Vec<(Reg, usize)> = w.owners.iter().filter_map(|o| if let Owner::Handle(h, r) = o { Some((h.clone(), *r)) } else { None }).collect();
                let mut chosen: Vec<(Reg, usize)> = Vec::new();
                for (h, r) in hs {
                    if t.flag() && !chosen.iter().any(|c| c.1 == r) {
                        chosen.push((h, r));
                    }
                }
                chosen.sort_by_key(|c| w.regions[c.1].start);
                what = format!("from_arc_regions({:?})", chosen.iter().map(|c| c.1).collect::<Vec<_>>());
                if !chosen.is_empty() {
                    let m = Map::from_arc_regions(chosen.iter().map(|c| c.0.clone()).collect()).map_err(|e| format!("{}: {:?}", what, e))?;
                    w.owners.push(Owner::Map(m, chosen.iter().map(|c| c.1).collect()));
                }
            }
            3 => {
                // insert a handle's region into a map -> new map
                let maps: Vec<usize> = w.owners.iter().enumerate().filter(|(_, o)| matches!(o, Owner::Map(..))).map(|(i, _)| i).collect();
                let hs: Vec<(Reg, usize)> = w.owners.iter().filter_map(|o| if let Owner::Handle(h, r) = o { Some((h.clone(), *r)) } else { None }).collect();
                if !maps.is_empty() && !hs.is_empty() {
                    let mi = maps[t.idx(maps.len())];
                    let (h, rid) = hs[t.idx(hs.len())].clone();
                    what = format!("owner{}.insert_region(region {})", mi, rid);
                    if let Owner::Map(m, v) = &w.owners[mi] {
                        if !v.contains(&rid) {
                            let nm = m.insert_region(h).map_err(|e| format!("{}: {:?}", what, e))?;
                            let nv = map_regions(&nm, &w);
                            w.owners.push(Owner::Map(nm, nv));
                        }
                    }
                } else {
                    what = "noop".into();
                }
            }
            4 => {
                // remove a region from a map -> new map + handle (kept or dropped right away)
                let maps: Vec<usize> = w.owners.iter().enumerate().filter(|(_, o)| matches!(o, Owner::Map(_, v) if !v.is_empty())).map(|(i, _)| i).collect();
                if !maps.is_empty() {
                    let mi = maps[t.idx(maps.len())];
                    let keep = t.flag();
                    let (nm, h, rid) = if let Owner::Map(m, v) = &w.owners[mi] {
                        let rid = v[t.idx(v.len())];
                        let r = &w.regions[rid];
                        let (nm, h) = m.remove_region(GuestAddress(r.start), r.size as u64).map_err(|e| format!("remove_region: {:?}", e))?;
                        (nm, h, rid)
                    } else {
                        unreachable!()
                    };
                    what = format!("owner{}.remove_region(region {}) handle {}", mi, rid, if keep { "kept" } else { "dropped" });
                    let nv = map_regions(&nm, &w);
                    w.owners.push(Owner::Map(nm, nv));
                    if keep {
                        w.owners.push(Owner::Handle(h, rid));
                    } else {
                        drop(h);
                    }
                } else {
                    what = "noop".into();
                }
            }
            5 => {
                let maps: Vec<usize> = w.owners.iter().enumerate().filter(|(_, o)| matches!(o, Owner::Map(..))).map(|(i, _)| i).collect();
                if !maps.is_empty() {
                    let mi = maps[t.idx(maps.len())];
                    what = format!("clone owner{}", mi);
                    if let Owner::Map(m, v) = &w.owners[mi] {
                        let c = (m.clone(), v.clone());
                        w.owners.push(Owner::Map(c.0, c.1));
                    }
                } else {
                    what = "noop".into();
                }
            }
            6 => {
                // move a map into a replaceable memory
                let maps: Vec<usize> = w.owners.iter().enumerate().filter(|(_, o)| matches!(o, Owner::Map(..))).map(|(i, _)| i).collect();
                if !maps.is_empty() && w.atomics.len() < 3 {
                    let mi = maps[t.idx(maps.len())];
                    what = format!("GuestMemoryAtomic::new(owner{})", mi);
                    if let Owner::Map(m, v) = w.owners.remove(mi) {
                        w.atomics.push(AtomicState { current: v, handles: 1 });
                        w.owners.push(Owner::Atomic(GuestMemoryAtomic::new(m), w.atomics.len() - 1));
                    }
                } else {
                    what = "noop".into();
                }
            }
            7 => {
                // snapshot / clone handle of a replaceable memory
                let ats: Vec<usize> = w.owners.iter().enumerate().filter(|(_, o)| matches!(o, Owner::Atomic(..))).map(|(i, _)| i).collect();
                if !ats.is_empty() {
                    let oi = ats[t.idx(ats.len())];
                    let kind = t.below(3);
                    what = format!("owner{} -> {}", oi, ["memory() guard", "memory().into_inner()", "clone handle"][kind as usize]);
                    if let Owner::Atomic(a, ai) = &w.owners[oi] {
                        let ai = *ai;
                        let cur = w.atomics[ai].current.clone();
                        match kind {
                            0 => {
                                let g = a.memory();
                                w.owners.push(Owner::Guard(g, cur));
                            }
                            1 => {
                                let s = a.memory().into_inner();
                                w.owners.push(Owner::Snapshot(s, cur));
                            }
                            _ => {
                                let c = a.clone();
                                w.atomics[ai].handles += 1;
                                w.owners.push(Owner::Atomic(c, ai));
                            }
                        }
                    }
                } else {
                    what = "noop".into();
                }
            }
            8 => {
                // replace the published map by another live map (moved in)
                let ats: Vec<usize> = w.owners.iter().enumerate().filter(|(_, o)| matches!(o, Owner::Atomic(..))).map(|(i, _)| i).collect();
                let maps: Vec<usize> = w.owners.iter().enumerate().filter(|(_, o)| matches!(o, Owner::Map(..))).map(|(i, _)| i).collect();
                if !ats.is_empty() && !maps.is_empty() {
                    let mi = maps[t.idx(maps.len())];
                    let (m, v) = if let Owner::Map(m, v) = w.owners.remove(mi) { (m, v) } else { unreachable!() };
                    let ats: Vec<usize> = w.owners.iter().enumerate().filter(|(_, o)| matches!(o, Owner::Atomic(..))).map(|(i, _)| i).collect();
                    let oi = ats[t.idx(ats.len())];
                    what = format!("owner{}.lock().replace(map {:?})", oi, v);
                    if let Owner::Atomic(a, ai) = &w.owners[oi] {
                        a.lock().map_err(|_| "poisoned".to_string())?.replace(m);
                        w.atomics[*ai].current = v;
                    }
                    cx.nt("replace");
                } else {
                    what = "noop".into();
                }
            }
            _ => {
                // drop any owner
                let oi = t.idx(w.owners.len());
                let o = w.owners.remove(oi);
                what = format!(
                    "drop owner{} ({})",
                    oi,
                    match &o {
                        Owner::Handle(_, r) => format!("handle of region {}", r),
                        Owner::Map(_, v) => format!("map {:?}", v),
                        Owner::Atomic(..) => "replaceable-memory handle".to_string(),
                        Owner::Guard(_, v) => format!("guard {:?}", v),
                        Owner::Snapshot(_, v) => format!("snapshot {:?}", v),
                    }
                );
                if let Owner::Atomic(_, ai) = &o {
                    w.atomics[*ai].handles -= 1;
                }
                if let Owner::Map(_, v) | Owner::Guard(_, v) | Owner::Snapshot(_, v) = &o {
                    // does this drop release a region whose creating handle is long gone?
                    for rid in v {
                        if !w.owners.iter().any(|x| matches!(x, Owner::Handle(_, r) if r == rid)) {
                            last_owner_not_creator = true;
                        }
                    }
                }
                drop(o);
            }
        }
        note!(cx, "{}", what);
        let log = interpose::end();
        w.settle(&log, &format!("step {} ({})", step, what))?;
        interpose::begin();
        let rt = w.read_tags();
        let log = interpose::end();
        rt.map_err(|e| format!("after step {} ({}): {}", step, what, e))?;
        w.settle(&log, &format!("reading through every owner after step {} ({})", step, what))?;
    }
    // every live owned region must still be mapped; then drop everything and expect no leak
    for r in &w.regions {
        if !w.unmapped[r.id] && r.owned {
            ensure!(interpose::proc_maps_covers(r.host, r.size), "region {} has live owners but its mapping is gone from /proc/self/maps", r.id);
        }
    }
    let multi = w.regions.iter().any(|r| w.refcount(r.id) >= 2);
    if multi {
        cx.nt("region_with_several_owners");
    }
    if last_owner_not_creator {
        cx.nt("last_owner_is_not_creator");
    }
    interpose::begin();
    // drop in tape-chosen order, settling after each
    while !w.owners.is_empty() {
        let oi = t.idx(w.owners.len());
        let o = w.owners.remove(oi);
        if let Owner::Atomic(_, ai) = &o {
            w.atomics[*ai].handles -= 1;
        }
        drop(o);
        let log = interpose::take();
        w.settle(&log, "final drops")?;
    }
    let _ = interpose::end();
    for r in &w.regions {
        ensure!(w.unmapped[r.id] || !r.owned, "region {} ({}) leaked: never unmapped although nothing can reach it", r.id, r.kind);
    }
    #[cfg(feature = "xen")]
    {
        let lv = crate::xen_emul::live();
        let log = crate::xen_emul::take_log();
        ensure!(lv.is_empty(), "grant windows remain mapped on the device after every owner is gone: {:x?}", lv);
        ensure!(!log.iter().any(|e| matches!(e, crate::xen_emul::XEv::Unmap { matched: false, .. })), "an unmap request did not match a live window: {:x?}", log);
    }
    for (p, len) in &w.raw_maps {
        ensure!(interpose::proc_maps_covers(*p, *len), "the externally provided mapping {:#x}+{:#x} was unmapped by the library", p, len);
        // SAFETY: releasing harness mappings.
        unsafe { libc::syscall(libc::SYS_munmap, *p, *len) };
    }
    Ok(())
}

pub fn property() -> Property {
    let mut subchecks = vec![SubCheck { name: "histories", builds: &[Build::Std, Build::Xen], kind: Kind::Random { quick: 8_000, thorough: 300_000, max_words: 120 }, run }];
    subchecks.extend(crate::progs::subchecks());
    Property {
        id: "C12",
        rule: "run-time half: a case = a history of 2..25 steps over owned anonymous, owned file-backed (with and without the hugetlbfs hint, zero and non-zero file offsets) and externally provided raw regions: create, build a map from handles, insert_region, remove_region (handle kept or dropped), clone a map, move a map into a GuestMemoryAtomic, take guards / owned snapshots / clone handles, replace, and drop any owner in any order; oracle = interposed mmap/munmap log against an owner-count model after every step (a region is unmapped exactly when its last owner disappears, once, with exactly its address and size; raw mappings never), tag bytes read through every live owner (first/last byte, an atomic u32 load, a descriptor transfer out and back in) inside the observed window, /proc/self/maps; xen build: also foreign, advance-mapped and on-demand grant regions over emulated devices (temporary windows of an access must be released within the step, memory mapped at creation must survive every access, the device must see every window released), and a final drop of everything in a generated order with a leak check. Compile-time half: every program of a grammar (parent x accessor x escape pattern) with its control twin is compiled against the current crate: the control must compile, the escaping variant must be rejected with a borrow-check error. non-trivial = region with several owners, last owner not the creator, raw region, replace, hugetlbfs hint; every program pair; distinct = decoded history / (parent, accessor, pattern)",
        assumptions: &["pointer guards hand out raw pointers and are exempt (documented)", "'for all client programs' is sampled by a grammar of escape patterns"],
        subchecks,
    }
}
