//! C05 (sound dirty tracking) and C16 (precise dirty tracking): property wrappers around the
//! shared engine in `dirty.rs`.

use crate::dirty::*;
use crate::engine::*;
use crate::tape::Tape;

fn s_bare(t: &mut Tape, cx: &mut Cx) -> Result<(), String> { run_bare(Mode::Sound, t, cx) }
fn s_region(t: &mut Tape, cx: &mut Cx) -> Result<(), String> { run_region(Mode::Sound, t, cx) }
fn s_guest(t: &mut Tape, cx: &mut Cx) -> Result<(), String> { run_guest(Mode::Sound, t, cx) }
fn p_bare(t: &mut Tape, cx: &mut Cx) -> Result<(), String> { run_bare(Mode::Precise, t, cx) }
fn p_region(t: &mut Tape, cx: &mut Cx) -> Result<(), String> { run_region(Mode::Precise, t, cx) }
fn p_guest(t: &mut Tape, cx: &mut Cx) -> Result<(), String> { run_guest(Mode::Precise, t, cx) }

const GEN: &str = "a case = tracked memory at one of three levels (bare VolatileSlice::with_bitmap with RefSlice / Option / RefSlice-at-base / ArcSlice-at-base flavours; MmapRegion built with its own AtomicBitmap or created by new / from_file / build / build_raw with the bitmap the library makes for it; GuestMemoryMmap<AtomicBitmap> of 1..3 regions with per-region page sizes) with page sizes from 1 byte to larger than the region (incl. non powers of two), bitmaps created smaller and grown with enlarge, roots that are the region-wide slice or a window obtained with region.get_slice(o, c) / GuestMemory::get_slice; xen build: the same three levels over emulated Unix / foreign / grant regions incl. regions mapped on demand with the library's own 4096-byte bitmap, bytes observed through the device file + a history of 1..12 operations, each performed through an accessor derived by a chain of 0..3 sub-slicing steps (subslice/offset/split_at/get_slice/array->slice), mixing every write-type operation (write, write_slice, write_obj, atomic store, typed ref/array stores, copy_from, slice-to-slice and element-array-to-slice copies for every element type, stream reads from &[u8]/Cursor/File/chunked readers, a failing descriptor read), read-type operations, rejected requests and bitmap resets; written data is the complement of the current content";

pub fn property_c05() -> Property {
    Property {
        id: "C05",
        rule: Box::leak(format!("{}; oracle = byte diff through raw pointers: every changed byte must be dirty in the owning bitmap at the region's own offset, and stays reported dirty through all later operations until a reset that covers its page (whole-bitmap resets, harvests, and range resets incl. whole pages and ranges ending exactly at a page end); non-trivial = write at a composed offset that is not page aligned in a sliced bitmap, page-straddling or region-straddling write, chain depth >= 2, write after a reset, or a failing descriptor read; distinct = decoded (level, page sizes, history)", GEN).into_boxed_str()),
        assumptions: &["writes through raw pointers / references (ptr_guard, aligned_as_mut, get_atomic_ref used directly) are exempt by documentation and not generated"],
        subchecks: vec![
            SubCheck { name: "bare", builds: &[Build::Std, Build::Xen], kind: Kind::Random { quick: 30_000, thorough: 1_500_000, max_words: 200 }, run: s_bare },
            SubCheck { name: "region", builds: &[Build::Std, Build::Xen], kind: Kind::Random { quick: 10_000, thorough: 500_000, max_words: 200 }, run: s_region },
            SubCheck { name: "guest", builds: &[Build::Std, Build::Xen], kind: Kind::Random { quick: 10_000, thorough: 500_000, max_words: 200 }, run: s_guest },
        ],
    }
}

pub fn property_c16() -> Property {
    Property {
        id: "C16",
        rule: Box::leak(format!("{}; oracle = full bitmap snapshot before/after every operation: newly dirty pages must overlap the bytes the operation wrote (a failing descriptor read may mark its whole target), read-type and rejected operations add none, dirty pages stay dirty without a reset; non-trivial = write ending exactly at a page end or one byte into the next page, page-straddling write, read-type operation, rejected request, failing descriptor read, or an operation after a reset; distinct = decoded (level, page sizes, history)", GEN).into_boxed_str()),
        assumptions: &["the written range of an operation is computed by the harness from the documented transfer semantics (checked independently by C03/C04)"],
        subchecks: vec![
            SubCheck { name: "bare", builds: &[Build::Std, Build::Xen], kind: Kind::Random { quick: 30_000, thorough: 1_500_000, max_words: 200 }, run: p_bare },
            SubCheck { name: "region", builds: &[Build::Std, Build::Xen], kind: Kind::Random { quick: 10_000, thorough: 500_000, max_words: 200 }, run: p_region },
            SubCheck { name: "guest", builds: &[Build::Std, Build::Xen], kind: Kind::Random { quick: 10_000, thorough: 500_000, max_words: 200 }, run: p_guest },
        ],
    }
}
