//! C01 – every accessor handed out stays inside its parent memory and is aligned.
//!
//! Oracle: (1) a request that does not fit (u128 arithmetic) must be an error; (2) on success the
//! extent reported by the new accessor's pointer guard lies inside the extent of the accessor it
//! was derived from; (3) typed/atomic references are aligned; (4) a write+read through the new
//! accessor changes no byte outside its own extent (canaries / snapshot; reads beyond a parent
//! flush against a PROT_NONE page fault and are attributed to the case by the driver).

use crate::common::*;
use crate::engine::*;
use crate::p04_container::{Pod, NPOD};
use crate::tape::Tape;
use crate::{ensure, note, with_pod};
use std::mem::{align_of, size_of};
use std::sync::atomic::*;
use vm_memory::{
    AtomicInteger, Be64, ByteValued, Bytes, GuestAddress, GuestMemory, GuestMemoryRegion, Le32,
    MemoryRegionAddress, VolatileArrayRef, VolatileMemory, VolatileSlice,
};

trait Dummy {}
impl Dummy for () {}

#[derive(Clone, Copy, Debug)]
struct Ext {
    ptr: usize,
    len: usize,
}

impl Ext {
    fn of(s: &VolatileSlice<'_, ()>) -> Ext {
        Ext { ptr: s.ptr_guard().as_ptr() as usize, len: s.len() }
    }
    fn contains(&self, o: &Ext) -> bool {
        o.ptr >= self.ptr && (o.ptr as u128 + o.len as u128) <= (self.ptr as u128 + self.len as u128)
    }
}

struct Root {
    ext: Ext,
    /// may the harness read/write the bytes of the root directly for the snapshot comparison?
    snapshot: bool,
    frame: Option<Box<dyn Fn() -> Result<(), String>>>,
}

struct Env<'r> {
    root: &'r Root,
    depth_reached: usize,
}

fn snapshot(root: &Root) -> Vec<u8> {
    (0..root.ext.len)
        // SAFETY: the root extent is valid memory owned by the case.
        .map(|i| unsafe { ((root.ext.ptr + i) as *const u8).read_volatile() })
        .collect()
}

/// Exercise a freshly derived slice: write and read through it, then verify nothing outside its
/// extent changed.
fn exercise(env: &Env, s: &VolatileSlice<'_, ()>, what: &str, t: &mut Tape) -> Result<(), String> {
    let e = Ext::of(s);
    let before = if env.root.snapshot { snapshot(env.root) } else { Vec::new() };
    let n = e.len.min(9000);
    let seed = t.word() as u8;
    let pat: Vec<u8> = (0..n).map(|i| (i as u8).wrapping_mul(13).wrapping_add(seed) | 1).collect();
    if n > 0 {
        s.write_slice(&pat, 0).map_err(|err| format!("{}: write_slice(len {}) through the new accessor failed: {:?}", what, n, err))?;
        let mut back = vec![0u8; n];
        s.read_slice(&mut back, 0).map_err(|err| format!("{}: read_slice through the new accessor failed: {:?}", what, err))?;
        ensure!(back == pat, "{}: data written through the accessor is not what is read back", what);
        // the last byte, through a different route
        let last: u8 = s.read_obj(n - 1).map_err(|err| format!("{}: read_obj(last) failed: {:?}", what, err))?;
        ensure!(last == pat[n - 1], "{}: last byte mismatch", what);
    }
    // one past the end must be refused
    ensure!(s.read_obj::<u8>(e.len).is_err(), "{}: read_obj at offset len succeeded", what);
    ensure!(s.write_obj(0u8, e.len).is_err(), "{}: write_obj at offset len succeeded", what);
    if env.root.snapshot {
        let after = snapshot(env.root);
        let lo = e.ptr.wrapping_sub(env.root.ext.ptr);
        for i in 0..after.len() {
            let inside = i >= lo && i < lo.saturating_add(n);
            if !inside && after[i] != before[i] {
                return Err(format!("{}: byte {} of the root changed although the accessor covers only root[{}..{}]", what, i, lo, lo + e.len));
            }
        }
    }
    if let Some(f) = &env.root.frame {
        f().map_err(|m| format!("{}: {}", what, m))?;
    }
    Ok(())
}

fn arg(t: &mut Tape, len: usize, base: usize) -> usize {
    t.size_near_ptr(len as u64, base as u64) as usize
}

fn classify_args(cx: &mut Cx, len: usize, base: usize, a: usize, b: usize) {
    let near = |x: usize| (x as i128 - len as i128).abs() <= 1;
    if near(a) || near(b) || near(a.wrapping_add(b)) {
        cx.nt("arg_within_1_of_boundary");
    }
    if a.checked_add(b).is_none() || (base as u128 + a as u128) > usize::MAX as u128 || a > isize::MAX as usize || b > isize::MAX as usize {
        cx.nt("overflowing_arg");
    }
}

fn refs<T: Pod, X: Dummy>(cur: &VolatileSlice<'_, ()>, env: &mut Env, depth: usize, t: &mut Tape, cx: &mut Cx, _x: X) -> Result<(), String> {
    let pe = Ext::of(cur);
    let sz = T::N;
    match t.below(4) {
        0 => {
            let o = arg(t, pe.len.saturating_sub(sz), pe.ptr);
            note!(cx, "d{} get_ref::<{}>({:#x})", depth, T::NAME, o);
            classify_args(cx, pe.len, pe.ptr, o, sz);
            let fits = o as u128 + sz as u128 <= pe.len as u128;
            match cur.get_ref::<T>(o) {
                Ok(r) => {
                    ensure!(fits, "get_ref::<{}>({:#x}) on {} bytes returned an accessor", T::NAME, o, pe.len);
                    let g = r.ptr_guard();
                    let ne = Ext { ptr: g.as_ptr() as usize, len: sz };
                    ensure!(pe.contains(&ne), "get_ref::<{}>({:#x}): reference {:x?} outside parent {:x?}", T::NAME, o, ne, pe);
                    let v = r.load();
                    r.store(v);
                    let s = r.to_slice();
                    ensure!(pe.contains(&Ext::of(&s)) && s.len() == sz, "get_ref(..).to_slice() {:x?} outside parent {:x?}", Ext::of(&s), pe);
                    exercise(env, &s, "get_ref.to_slice", t)?;
                    go(&s, env, depth + 1, t, cx)
                }
                Err(_) => {
                    cx.label("refused");
                    go(cur, env, depth + 1, t, cx)
                }
            }
        }
        1 => {
            let o = arg(t, pe.len, pe.ptr);
            let avail = pe.len.saturating_sub(o.min(pe.len)) / sz;
            let n = match t.below(4) {
                0 => t.idx(avail + 1),
                1 => avail + 1,
                2 => arg(t, avail, pe.ptr),
                _ => (usize::MAX / sz).wrapping_add(t.idx(4)).wrapping_sub(1),
            };
            note!(cx, "d{} get_array_ref::<{}>({:#x}, {:#x})", depth, T::NAME, o, n);
            classify_args(cx, pe.len, pe.ptr, o, n.saturating_mul(sz));
            let fits = o as u128 + (n as u128) * (sz as u128) <= pe.len as u128;
            match cur.get_array_ref::<T>(o, n) {
                Ok(a) => {
                    ensure!(fits, "get_array_ref::<{}>({:#x}, {:#x}) on {} bytes returned an accessor", T::NAME, o, n, pe.len);
                    ensure!(a.len() == n, "array len");
                    let s = a.to_slice();
                    let ne = Ext::of(&s);
                    ensure!(pe.contains(&ne) && s.len() == n * sz, "get_array_ref::<{}>({:#x},{}).to_slice() {:x?} outside parent {:x?}", T::NAME, o, n, ne, pe);
                    if t.chance(1, 4) {
                        // an out-of-range index is a documented panic: it must never yield a
                        // reference (neither inside nor outside the array)
                        let bad = match t.below(4) {
                            0 => n,
                            1 => n + 1 + t.idx(3),
                            2 => n.saturating_mul(sz).saturating_sub(1).max(n),
                            _ => arg(t, n, pe.ptr).max(n),
                        };
                        note!(cx, "ref_at({}) of an array of {}", bad, n);
                        cx.nt("out_of_range_index");
                        let got = no_panic(|| {
                            let r = a.ref_at(bad);
                            r.ptr_guard().as_ptr() as usize
                        });
                        if let Ok(p) = got {
                            return Err(format!("array::<{}>({:#x},{}).ref_at({}) returned a reference at {:#x} instead of panicking (the array covers {:x?})", T::NAME, o, n, bad, p, ne));
                        }
                        let got = no_panic(|| a.load(bad));
                        ensure!(got.is_err(), "array::<{}>({:#x},{}).load({}) returned a value instead of panicking", T::NAME, o, n, bad);
                    }
                    if n > 0 {
                        let i = if t.flag() { n - 1 } else { t.idx(n) };
                        let r = a.ref_at(i);
                        let re = Ext { ptr: r.ptr_guard().as_ptr() as usize, len: sz };
                        ensure!(ne.contains(&re), "ref_at({}) of array({:#x},{}) {:x?} outside the array {:x?}", i, o, n, re, ne);
                        let v = a.load(i);
                        a.store(i, v);
                        let rs = r.to_slice();
                        ensure!(ne.contains(&Ext::of(&rs)), "ref_at({}).to_slice() outside the array", i);
                        if t.flag() {
                            exercise(env, &rs, "array.ref_at.to_slice", t)?;
                            return go(&rs, env, depth + 1, t, cx);
                        }
                    }
                    exercise(env, &s, "get_array_ref.to_slice", t)?;
                    go(&s, env, depth + 1, t, cx)
                }
                Err(_) => {
                    cx.label("refused");
                    go(cur, env, depth + 1, t, cx)
                }
            }
        }
        2 => {
            let o = arg(t, pe.len.saturating_sub(sz), pe.ptr);
            let mutable = t.flag();
            note!(cx, "d{} aligned_as_{}::<{}>({:#x})", depth, if mutable { "mut" } else { "ref" }, T::NAME, o);
            classify_args(cx, pe.len, pe.ptr, o, sz);
            let fits = o as u128 + sz as u128 <= pe.len as u128;
            // SAFETY: the case owns the memory exclusively; no other reference is alive.
            let r: Result<usize, _> = unsafe {
                if mutable {
                    cur.aligned_as_mut::<T>(o).map(|r| r as *mut T as usize)
                } else {
                    cur.aligned_as_ref::<T>(o).map(|r| r as *const T as usize)
                }
            };
            match r {
                Ok(p) => {
                    ensure!(fits, "aligned_as_ref::<{}>({:#x}) on {} bytes returned a reference", T::NAME, o, pe.len);
                    ensure!(p % align_of::<T>() == 0, "aligned_as_ref::<{}>({:#x}) returned misaligned reference {:#x}", T::NAME, o, p);
                    ensure!(pe.contains(&Ext { ptr: p, len: size_of::<T>() }), "aligned_as_ref::<{}>({:#x}) = {:#x} outside parent {:x?}", T::NAME, o, p, pe);
                    cx.label("typed_reference");
                }
                Err(_) => {
                    cx.label("refused");
                }
            }
            go(cur, env, depth + 1, t, cx)
        }
        _ => {
            // ByteValued::from_slice / from_mut_slice on an ordinary byte buffer
            let mut buf = vec![0x3Cu8; 64];
            let start = t.idx(24);
            let len = match t.below(4) {
                0 => sz,
                1 => sz + 1,
                2 => sz.saturating_sub(1),
                _ => t.idx(33),
            };
            let base = buf.as_ptr() as usize + start;
            note!(cx, "d{} {}::from_slice(buf[{}..+{}])", depth, T::NAME, start, len);
            let want = len == size_of::<T>() && base % align_of::<T>() == 0;
            {
                let r = T::from_slice(&buf[start..start + len]);
                match r {
                    Some(x) => {
                        let p = x as *const T as usize;
                        ensure!(want, "{}::from_slice(len {}, addr % {} = {}) returned Some", T::NAME, len, align_of::<T>(), base % align_of::<T>());
                        ensure!(p == base, "from_slice reference points at {:#x}, data starts at {:#x}", p, base);
                    }
                    None => ensure!(!want, "{}::from_slice of an aligned slice of the right length returned None", T::NAME),
                }
            }
            {
                let r = T::from_mut_slice(&mut buf[start..start + len]);
                match r {
                    Some(x) => {
                        let p = x as *mut T as usize;
                        ensure!(want && p == base, "{}::from_mut_slice(len {}) returned Some({:#x}), want {}", T::NAME, len, p, want);
                    }
                    None => ensure!(!want, "{}::from_mut_slice of an aligned slice of the right length returned None", T::NAME),
                }
            }
            if len.abs_diff(sz) <= 1 {
                cx.nt("arg_within_1_of_boundary");
            }
            // the byte views of an object that sits between two neighbours
            {
                let mut trio: [T; 3] = [T::zeroed(), T::zeroed(), T::zeroed()];
                let mid = &trio[1] as *const T as usize;
                let fillb = 0x80 | t.idx(64) as u8;
                {
                    let vs = trio[1].as_bytes();
                    let e = Ext::of(&vs);
                    ensure!(e.ptr == mid && e.len == size_of::<T>(), "{}::as_bytes() = {:x?}, the object is at {:#x}+{}", T::NAME, e, mid, size_of::<T>());
                    vs.write_slice(&vec![fillb; e.len], 0).map_err(|err| format!("{}::as_bytes().write_slice: {:?}", T::NAME, err))?;
                    ensure!(vs.write_obj(0u8, e.len).is_err(), "{}::as_bytes(): write one past the object succeeded", T::NAME);
                }
                ensure!(trio[0].as_slice().iter().all(|b| *b == 0) && trio[2].as_slice().iter().all(|b| *b == 0), "{}::as_bytes(): a write through the view changed a neighbouring object", T::NAME);
                ensure!(trio[1].as_slice().len() == size_of::<T>() && trio[1].as_slice().iter().all(|b| *b == fillb), "{}::as_slice() does not show the bytes written through as_bytes()", T::NAME);
                let ms = trio[1].as_mut_slice();
                ensure!(ms.as_ptr() as usize == mid && ms.len() == size_of::<T>(), "{}::as_mut_slice() = {:#x}+{}, the object is at {:#x}+{}", T::NAME, ms.as_ptr() as usize, ms.len(), mid, size_of::<T>());
            }
            go(cur, env, depth + 1, t, cx)
        }
    }
}

fn atomic_ref<A: AtomicInteger, T: vm_memory::AtomicAccess<A = A>>(cur: &VolatileSlice<'_, ()>, name: &str, t: &mut Tape, cx: &mut Cx) -> Result<(), String> {
    let pe = Ext::of(cur);
    let sz = size_of::<A>();
    let o = arg(t, pe.len.saturating_sub(sz), pe.ptr);
    note!(cx, "get_atomic_ref::<{}>({:#x})", name, o);
    classify_args(cx, pe.len, pe.ptr, o, sz);
    let fits = o as u128 + sz as u128 <= pe.len as u128;
    match cur.get_atomic_ref::<A>(o) {
        Ok(r) => {
            let p = r as *const A as usize;
            ensure!(fits, "get_atomic_ref::<{}>({:#x}) on {} bytes returned a reference", name, o, pe.len);
            ensure!(p % align_of::<A>() == 0, "get_atomic_ref::<{}>({:#x}) returned misaligned reference {:#x}", name, o, p);
            ensure!(pe.contains(&Ext { ptr: p, len: sz }), "get_atomic_ref::<{}>({:#x}) = {:#x} outside parent {:x?}", name, o, p, pe);
            let v = r.load(Ordering::SeqCst);
            r.store(v, Ordering::SeqCst);
            cx.label("atomic_reference");
        }
        Err(_) => {
            cx.label("refused");
        }
    }
    // Bytes::load / Bytes::store form the same atomic reference internally: answered only when
    // the access fits and the address is aligned
    let aligned = pe.ptr.wrapping_add(o) % align_of::<A>() == 0;
    if let Ok(v) = cur.load::<T>(o, Ordering::SeqCst) {
        ensure!(fits && aligned, "load::<{}>({:#x}) on {} bytes at {:#x} was answered although it {}", name, o, pe.len, pe.ptr, if fits { "is misaligned" } else { "does not fit" });
        ensure!(cur.store::<T>(v, o, Ordering::SeqCst).is_ok(), "store::<{}>({:#x}) refused where load was answered", name, o);
        cx.label("atomic_load_store");
    } else if !(fits && aligned) {
        // SAFETY: T is ByteValued - every bit pattern is a value.
        let zero: T = unsafe { std::mem::zeroed() };
        ensure!(cur.store::<T>(zero, o, Ordering::SeqCst).is_err(), "store::<{}>({:#x}) on {} bytes at {:#x} was answered although it {}", name, o, pe.len, pe.ptr, if fits { "is misaligned" } else { "does not fit" });
        cx.label("atomic_load_store_refused");
    }
    Ok(())
}

fn go(cur: &VolatileSlice<'_, ()>, env: &mut Env, depth: usize, t: &mut Tape, cx: &mut Cx) -> Result<(), String> {
    env.depth_reached = env.depth_reached.max(depth);
    if depth >= 8 || (t.exhausted() && depth > 0) {
        return Ok(());
    }
    let pe = Ext::of(cur);
    ensure!(env.root.ext.contains(&pe), "accessor {:x?} lies outside the root {:x?}", pe, env.root.ext);
    let g = cur.ptr_guard_mut();
    ensure!(g.as_ptr() as usize == pe.ptr && g.len() == pe.len, "ptr_guard_mut disagrees with ptr_guard");
    drop(g);
    match t.below(9) {
        0 => {
            let o = arg(t, pe.len, pe.ptr);
            let c = arg(t, pe.len.saturating_sub(o.min(pe.len)), pe.ptr);
            note!(cx, "d{} subslice({:#x}, {:#x})", depth, o, c);
            classify_args(cx, pe.len, pe.ptr, o, c);
            let fits = o as u128 + c as u128 <= pe.len as u128;
            match cur.subslice(o, c) {
                Ok(s) => {
                    ensure!(fits, "subslice({:#x}, {:#x}) of {} bytes returned an accessor", o, c, pe.len);
                    let ne = Ext::of(&s);
                    ensure!(pe.contains(&ne) && s.len() == c, "subslice({:#x},{:#x}) = {:x?} outside parent {:x?}", o, c, ne, pe);
                    exercise(env, &s, "subslice", t)?;
                    go(&s, env, depth + 1, t, cx)
                }
                Err(_) => {
                    cx.label("refused");
                    go(cur, env, depth + 1, t, cx)
                }
            }
        }
        1 => {
            let c = arg(t, pe.len, pe.ptr);
            note!(cx, "d{} offset({:#x})", depth, c);
            classify_args(cx, pe.len, pe.ptr, c, 0);
            match cur.offset(c) {
                Ok(s) => {
                    ensure!(c <= pe.len, "offset({:#x}) of {} bytes returned an accessor", c, pe.len);
                    let ne = Ext::of(&s);
                    ensure!(pe.contains(&ne), "offset({:#x}) = {:x?} outside parent {:x?}", c, ne, pe);
                    exercise(env, &s, "offset", t)?;
                    go(&s, env, depth + 1, t, cx)
                }
                Err(_) => {
                    cx.label("refused");
                    go(cur, env, depth + 1, t, cx)
                }
            }
        }
        2 => {
            let m = arg(t, pe.len, pe.ptr);
            note!(cx, "d{} split_at({:#x})", depth, m);
            classify_args(cx, pe.len, pe.ptr, m, 0);
            match cur.split_at(m) {
                Ok((a, b)) => {
                    ensure!(m <= pe.len, "split_at({:#x}) of {} bytes returned accessors", m, pe.len);
                    let (ea, eb) = (Ext::of(&a), Ext::of(&b));
                    ensure!(pe.contains(&ea) && pe.contains(&eb), "split_at({:#x}) halves {:x?} {:x?} outside parent {:x?}", m, ea, eb, pe);
                    ensure!(ea.len as u128 + eb.len as u128 <= pe.len as u128, "split_at halves are longer than the parent");
                    exercise(env, &a, "split_at.0", t)?;
                    exercise(env, &b, "split_at.1", t)?;
                    if t.flag() {
                        go(&a, env, depth + 1, t, cx)
                    } else {
                        go(&b, env, depth + 1, t, cx)
                    }
                }
                Err(_) => {
                    cx.label("refused");
                    go(cur, env, depth + 1, t, cx)
                }
            }
        }
        3 => {
            let o = arg(t, pe.len, pe.ptr);
            let c = arg(t, pe.len.saturating_sub(o.min(pe.len)), pe.ptr);
            note!(cx, "d{} get_slice({:#x}, {:#x})", depth, o, c);
            classify_args(cx, pe.len, pe.ptr, o, c);
            let fits = o as u128 + c as u128 <= pe.len as u128;
            match cur.get_slice(o, c) {
                Ok(s) => {
                    ensure!(fits, "get_slice({:#x}, {:#x}) of {} bytes returned an accessor", o, c, pe.len);
                    let ne = Ext::of(&s);
                    ensure!(pe.contains(&ne) && s.len() == c, "get_slice({:#x},{:#x}) = {:x?} outside parent {:x?}", o, c, ne, pe);
                    exercise(env, &s, "get_slice", t)?;
                    go(&s, env, depth + 1, t, cx)
                }
                Err(_) => {
                    cx.label("refused");
                    go(cur, env, depth + 1, t, cx)
                }
            }
        }
        4 => {
            note!(cx, "d{} as_volatile_slice / ArrayRef::<u8>::from", depth);
            let s = cur.as_volatile_slice();
            ensure!(pe.contains(&Ext::of(&s)), "as_volatile_slice outside parent");
            let a: VolatileArrayRef<'_, u8, ()> = VolatileArrayRef::from(s);
            ensure!(a.len() == pe.len, "ArrayRef::from(slice).len() = {}, slice has {}", a.len(), pe.len);
            let s2 = a.to_slice();
            ensure!(pe.contains(&Ext::of(&s2)), "ArrayRef::from(slice).to_slice() outside parent");
            go(&s2, env, depth + 1, t, cx)
        }
        5 | 6 | 7 => {
            let sel = t.idx(NPOD);
            with_pod!(sel, refs, cur, env, depth, t, cx, ())
        }
        _ => {
            match t.below(6) {
                0 => atomic_ref::<AtomicU8, u8>(cur, "AtomicU8", t, cx)?,
                1 => atomic_ref::<AtomicU16, u16>(cur, "AtomicU16", t, cx)?,
                2 => atomic_ref::<AtomicU32, u32>(cur, "AtomicU32", t, cx)?,
                3 => atomic_ref::<AtomicU64, u64>(cur, "AtomicU64", t, cx)?,
                4 => atomic_ref::<AtomicI16, i16>(cur, "AtomicI16", t, cx)?,
                _ => atomic_ref::<AtomicUsize, usize>(cur, "AtomicUsize", t, cx)?,
            }
            go(cur, env, depth + 1, t, cx)
        }
    }
}

fn finish(env: &Env, cx: &mut Cx) {
    if env.depth_reached >= 2 {
        cx.nt("chain_depth_ge_2");
    }
    if env.depth_reached >= 4 {
        cx.label("chain_depth_ge_4");
    }
}

fn run_framed(t: &mut Tape, cx: &mut Cx) -> Result<(), String> {
    let len = match t.below(4) {
        0 => t.idx(17),
        _ => t.idx(257),
    };
    let align = t.idx(16);
    let fr = std::rc::Rc::new(Framed::new(len, align));
    note!(cx, "root: framed slice of {} bytes, base % 16 = {}", len, align);
    let fr2 = fr.clone();
    let root = Root {
        ext: Ext { ptr: fr.ptr() as usize, len },
        snapshot: true,
        frame: Some(Box::new(move || fr2.canaries_ok())),
    };
    let s = fr.slice();
    let mut env = Env { root: &root, depth_reached: 0 };
    go(&s, &mut env, 0, t, cx)?;
    finish(&env, cx);
    Ok(())
}

/// Root flush against a PROT_NONE page: an out-of-parent read or write faults.
fn run_guard(t: &mut Tape, cx: &mut Cx) -> Result<(), String> {
    let ps = 4096usize;
    // SAFETY: plain anonymous mapping, released at the end of the case.
    let base = unsafe {
        libc::syscall(libc::SYS_mmap, 0usize, 3 * ps, libc::PROT_READ | libc::PROT_WRITE, libc::MAP_PRIVATE | libc::MAP_ANONYMOUS, -1isize, 0usize)
    } as isize;
    ensure!(base != -1, "harness mmap failed");
    let base = base as usize;
    // pages: [NONE][RW][NONE]
    // SAFETY: protecting pages of our own mapping.
    unsafe {
        libc::syscall(libc::SYS_mprotect, base, ps, libc::PROT_NONE);
        libc::syscall(libc::SYS_mprotect, base + 2 * ps, ps, libc::PROT_NONE);
    }
    let len = 1 + t.idx(256);
    let at_end = t.flag();
    let ptr = if at_end { base + 2 * ps - len } else { base + ps };
    note!(cx, "root: {} bytes flush against a PROT_NONE page ({})", len, if at_end { "end" } else { "start" });
    cx.label("guard_page_root");
    let root = Root { ext: Ext { ptr, len }, snapshot: true, frame: None };
    // SAFETY: [ptr, ptr+len) is inside the RW page.
    let s = unsafe { VolatileSlice::new(ptr as *mut u8, len) };
    let mut env = Env { root: &root, depth_reached: 0 };
    let r = go(&s, &mut env, 0, t, cx);
    finish(&env, cx);
    // SAFETY: unmapping our own mapping.
    unsafe { libc::syscall(libc::SYS_munmap, base, 3 * ps) };
    r
}

/// Roots obtained from a mapped region / guest memory: region.get_slice, get_host_address, ...
fn run_region(t: &mut Tape, cx: &mut Cx) -> Result<(), String> {
    let lay = gen_layout(t, 3, TopMode::Mmap, true);
    let mem = build_mmap(&lay)?;
    note!(cx, "root: guest memory {}", lay.describe());
    cx.label("region_root");
    region_body(&mem, &lay, t, cx)
}

/// xen build: the same over emulated foreign / advance-mapped grant regions (stable host
/// pointers, mapping length rounded up to pages) and Unix regions.
#[cfg(feature = "xen")]
fn run_region_xen(t: &mut Tape, cx: &mut Cx) -> Result<(), String> {
    use crate::xen_emul::{build as xbuild, reset, Kind as XKind};
    reset();
    let n = 1 + t.idx(2);
    let mut regs = Vec::new();
    let mut lay = Layout { regs: vec![] };
    for i in 0..n {
        let kind = t.pick(&[XKind::Foreign, XKind::GrantAdvance, XKind::GrantAdvance, XKind::UnixFile, XKind::UnixAnon]);
        let size = t.pick(&[1usize, 100, 4096, 4097, 8191, 8192]);
        let base = 0x10000u64 * (i as u64 + 1);
        let xr = xbuild::<()>(kind, base, size)?;
        note!(cx, "{:?} region {:#x}+{:#x}", kind, base, size);
        lay.regs.push((base, size as u64));
        regs.push(std::sync::Arc::new(xr.region));
    }
    let mem = vm_memory::GuestMemoryMmap::from_arc_regions(regs).map_err(|e| format!("{:?}", e))?;
    cx.nt("xen_region_root");
    region_body(&mem, &lay, t, cx)
}

#[cfg(not(feature = "xen"))]
fn run_region_xen(_t: &mut Tape, _cx: &mut Cx) -> Result<(), String> {
    Ok(())
}

/// xen build: derivation chains over regions that have no stable host pointer (grant regions
/// mapped on demand) and, for comparison, the other emulated kinds. Extents are tracked
/// logically (offset into the region, by the harness' own arithmetic) and judged on content:
/// the bytes seen through the accessor's guard are the device bytes of exactly that range, a
/// write through the accessor changes exactly that range of the device, nothing else.
#[cfg(feature = "xen")]
mod logical {
    use super::*;
    use crate::xen_emul::{build as xbuild, reset, Kind as XKind, XenRegion};

    pub struct LEnv<'a> {
        pub xr: &'a XenRegion<()>,
        pub depth_reached: usize,
    }

    fn lex(env: &LEnv, s: &VolatileSlice<'_, ()>, lo: usize, what: &str, t: &mut Tape) -> Result<(), String> {
        let len = s.len();
        let size = env.xr.size;
        ensure!(lo as u128 + len as u128 <= size as u128, "{}: accessor covers region[{:#x}..+{:#x}], the region has {:#x} bytes", what, lo, len, size);
        let before = env.xr.raw_read();
        let n = len.min(9000);
        {
            let g = s.ptr_guard();
            ensure!(g.len() == len, "{}: guard of {} bytes for an accessor of {} bytes", what, g.len(), len);
            if n > 0 {
                // SAFETY: the guard promises `len` readable bytes at as_ptr().
                let via: Vec<u8> = (0..n).map(|i| unsafe { g.as_ptr().add(i).read_volatile() }).collect();
                ensure!(via[..] == before[lo..lo + n], "{}: the guard of the accessor does not designate region bytes {:#x}..{:#x}", what, lo, lo + n);
            }
        }
        let seed = t.word() as u8;
        let pat: Vec<u8> = (0..n).map(|i| (i as u8).wrapping_mul(13).wrapping_add(seed) | 1).collect();
        if n > 0 {
            s.write_slice(&pat, 0).map_err(|err| format!("{}: write_slice(len {}) through the new accessor failed: {:?}", what, n, err))?;
            let mut back = vec![0u8; n];
            s.read_slice(&mut back, 0).map_err(|err| format!("{}: read_slice through the new accessor failed: {:?}", what, err))?;
            ensure!(back == pat, "{}: data written through the accessor is not what is read back", what);
            let last: u8 = s.read_obj(n - 1).map_err(|err| format!("{}: read_obj(last) failed: {:?}", what, err))?;
            ensure!(last == pat[n - 1], "{}: last byte mismatch", what);
        }
        ensure!(s.read_obj::<u8>(len).is_err(), "{}: read_obj at offset len succeeded", what);
        ensure!(s.write_obj(0u8, len).is_err(), "{}: write_obj at offset len succeeded", what);
        let after = env.xr.raw_read();
        for i in 0..size {
            let want = if i >= lo && i < lo + n { pat[i - lo] } else { before[i] };
            if after[i] != want {
                return Err(format!("{}: device byte {:#x} of the region is {:#04x}, expected {:#04x} (the accessor covers region[{:#x}..{:#x}])", what, i, after[i], want, lo, lo + len));
            }
        }
        Ok(())
    }

    fn larg(t: &mut Tape, len: usize) -> usize {
        t.size_near(len as u64) as usize
    }

    fn lclass(cx: &mut Cx, len: usize, a: usize, b: usize) {
        let near = |x: usize| (x as i128 - len as i128).abs() <= 1;
        if near(a) || near(b) || near(a.wrapping_add(b)) {
            cx.nt("arg_within_1_of_boundary");
        }
        if a.checked_add(b).is_none() || a > isize::MAX as usize || b > isize::MAX as usize {
            cx.nt("overflowing_arg");
        }
    }

    fn lrefs<T: Pod, X: Dummy>(cur: &VolatileSlice<'_, ()>, lo: usize, env: &mut LEnv, depth: usize, t: &mut Tape, cx: &mut Cx, _x: X) -> Result<(), String> {
        let plen = cur.len();
        let sz = T::N;
        if t.flag() {
            let o = larg(t, plen.saturating_sub(sz));
            note!(cx, "d{} get_ref::<{}>({:#x})", depth, T::NAME, o);
            lclass(cx, plen, o, sz);
            let fits = o as u128 + sz as u128 <= plen as u128;
            match cur.get_ref::<T>(o) {
                Ok(r) => {
                    ensure!(fits, "get_ref::<{}>({:#x}) on {} bytes returned an accessor", T::NAME, o, plen);
                    let raw = env.xr.raw_read();
                    let v = r.load();
                    ensure!(v.to_b()[..] == raw[lo + o..lo + o + sz], "get_ref::<{}>({:#x}).load() is not region bytes {:#x}..+{}", T::NAME, o, lo + o, sz);
                    r.store(v);
                    ensure!(r.ptr_guard().len() == sz, "get_ref::<{}>: guard length {}", T::NAME, r.ptr_guard().len());
                    let s = r.to_slice();
                    ensure!(s.len() == sz, "get_ref.to_slice length");
                    lex(env, &s, lo + o, "get_ref.to_slice", t)?;
                    lgo(&s, lo + o, env, depth + 1, t, cx)
                }
                Err(_) => {
                    cx.label("refused");
                    lgo(cur, lo, env, depth + 1, t, cx)
                }
            }
        } else {
            let o = larg(t, plen);
            let avail = plen.saturating_sub(o.min(plen)) / sz;
            let n = match t.below(4) {
                0 => t.idx(avail + 1),
                1 => avail + 1,
                2 => larg(t, avail),
                _ => (usize::MAX / sz).wrapping_add(t.idx(4)).wrapping_sub(1),
            };
            note!(cx, "d{} get_array_ref::<{}>({:#x}, {:#x})", depth, T::NAME, o, n);
            lclass(cx, plen, o, n.saturating_mul(sz));
            let fits = o as u128 + (n as u128) * (sz as u128) <= plen as u128;
            match cur.get_array_ref::<T>(o, n) {
                Ok(a) => {
                    ensure!(fits, "get_array_ref::<{}>({:#x}, {:#x}) on {} bytes returned an accessor", T::NAME, o, n, plen);
                    ensure!(a.len() == n, "array len");
                    ensure!(a.ptr_guard().len() == n * sz, "array::<{}>({}) guard length {}", T::NAME, n, a.ptr_guard().len());
                    let s = a.to_slice();
                    ensure!(s.len() == n * sz, "array.to_slice length");
                    if n > 0 {
                        let i = if t.flag() { n - 1 } else { t.idx(n) };
                        let raw = env.xr.raw_read();
                        let v = a.load(i);
                        let at = lo + o + i * sz;
                        ensure!(v.to_b()[..] == raw[at..at + sz], "array::<{}>({:#x},{}).load({}) is not region bytes {:#x}..+{}", T::NAME, o, n, i, at, sz);
                        a.store(i, v);
                        let r = a.ref_at(i);
                        let rs = r.to_slice();
                        if t.flag() {
                            lex(env, &rs, at, "array.ref_at.to_slice", t)?;
                            return lgo(&rs, at, env, depth + 1, t, cx);
                        }
                    }
                    lex(env, &s, lo + o, "get_array_ref.to_slice", t)?;
                    lgo(&s, lo + o, env, depth + 1, t, cx)
                }
                Err(_) => {
                    cx.label("refused");
                    lgo(cur, lo, env, depth + 1, t, cx)
                }
            }
        }
    }

    pub fn lgo(cur: &VolatileSlice<'_, ()>, lo: usize, env: &mut LEnv, depth: usize, t: &mut Tape, cx: &mut Cx) -> Result<(), String> {
        env.depth_reached = env.depth_reached.max(depth);
        if depth >= 8 || (t.exhausted() && depth > 0) {
            return Ok(());
        }
        let plen = cur.len();
        match t.below(8) {
            0 => {
                let o = larg(t, plen);
                let c = larg(t, plen.saturating_sub(o.min(plen)));
                note!(cx, "d{} subslice({:#x}, {:#x})", depth, o, c);
                lclass(cx, plen, o, c);
                match cur.subslice(o, c) {
                    Ok(s) => {
                        ensure!(o as u128 + c as u128 <= plen as u128, "subslice({:#x}, {:#x}) of {} bytes returned an accessor", o, c, plen);
                        ensure!(s.len() == c, "subslice length");
                        lex(env, &s, lo + o, "subslice", t)?;
                        lgo(&s, lo + o, env, depth + 1, t, cx)
                    }
                    Err(_) => {
                        cx.label("refused");
                        lgo(cur, lo, env, depth + 1, t, cx)
                    }
                }
            }
            1 => {
                let c = larg(t, plen);
                note!(cx, "d{} offset({:#x})", depth, c);
                lclass(cx, plen, c, 0);
                match cur.offset(c) {
                    Ok(s) => {
                        ensure!(c <= plen, "offset({:#x}) of {} bytes returned an accessor", c, plen);
                        ensure!(s.len() == plen - c, "offset({:#x}) of {} bytes has {} bytes", c, plen, s.len());
                        lex(env, &s, lo + c, "offset", t)?;
                        lgo(&s, lo + c, env, depth + 1, t, cx)
                    }
                    Err(_) => {
                        cx.label("refused");
                        lgo(cur, lo, env, depth + 1, t, cx)
                    }
                }
            }
            2 => {
                let m = larg(t, plen);
                note!(cx, "d{} split_at({:#x})", depth, m);
                lclass(cx, plen, m, 0);
                match cur.split_at(m) {
                    Ok((a, b)) => {
                        ensure!(m <= plen, "split_at({:#x}) of {} bytes returned accessors", m, plen);
                        ensure!(a.len() == m && b.len() == plen - m, "split_at({:#x}) of {} bytes: halves of {} and {} bytes", m, plen, a.len(), b.len());
                        lex(env, &a, lo, "split_at.0", t)?;
                        lex(env, &b, lo + m, "split_at.1", t)?;
                        if t.flag() {
                            lgo(&a, lo, env, depth + 1, t, cx)
                        } else {
                            lgo(&b, lo + m, env, depth + 1, t, cx)
                        }
                    }
                    Err(_) => {
                        cx.label("refused");
                        lgo(cur, lo, env, depth + 1, t, cx)
                    }
                }
            }
            3 => {
                let o = larg(t, plen);
                let c = larg(t, plen.saturating_sub(o.min(plen)));
                note!(cx, "d{} get_slice({:#x}, {:#x})", depth, o, c);
                lclass(cx, plen, o, c);
                match cur.get_slice(o, c) {
                    Ok(s) => {
                        ensure!(o as u128 + c as u128 <= plen as u128, "get_slice({:#x}, {:#x}) of {} bytes returned an accessor", o, c, plen);
                        ensure!(s.len() == c, "get_slice length");
                        lex(env, &s, lo + o, "get_slice", t)?;
                        lgo(&s, lo + o, env, depth + 1, t, cx)
                    }
                    Err(_) => {
                        cx.label("refused");
                        lgo(cur, lo, env, depth + 1, t, cx)
                    }
                }
            }
            4 => {
                note!(cx, "d{} as_volatile_slice / ArrayRef::<u8>::from", depth);
                let s = cur.as_volatile_slice();
                ensure!(s.len() == plen, "as_volatile_slice length");
                let a: VolatileArrayRef<'_, u8, ()> = VolatileArrayRef::from(s);
                ensure!(a.len() == plen, "ArrayRef::from(slice).len() = {}, slice has {}", a.len(), plen);
                let s2 = a.to_slice();
                lex(env, &s2, lo, "ArrayRef::from(slice).to_slice", t)?;
                lgo(&s2, lo, env, depth + 1, t, cx)
            }
            _ => {
                let sel = t.idx(NPOD);
                with_pod!(sel, lrefs, cur, lo, env, depth, t, cx, ())
            }
        }
    }

    pub fn run(t: &mut Tape, cx: &mut Cx) -> Result<(), String> {
        reset();
        let kind = t.pick(&[XKind::GrantOnDemand, XKind::GrantOnDemand, XKind::GrantOnDemand, XKind::GrantAdvance, XKind::Foreign, XKind::UnixFile, XKind::UnixAnon]);
        let size = t.pick(&[1usize, 100, 4095, 4096, 4097, 8191, 8192, 12288]);
        let base = t.pick(&[0u64, 0x1000, 0x5000]);
        let xr = xbuild::<()>(kind, base, size)?;
        note!(cx, "{:?} region {:#x}+{:#x}", kind, base, size);
        if kind == XKind::GrantOnDemand {
            cx.nt("on_demand_root");
        }
        let fill: Vec<u8> = (0..size).map(|i| ((i as u32).wrapping_mul(2654435761) >> 13) as u8).collect();
        xr.raw_write(&fill);
        let mut env = LEnv { xr: &xr, depth_reached: 0 };
        for _ in 0..(1 + t.idx(2)) {
            if t.flag() {
                let o = larg(t, size);
                let c = larg(t, size.saturating_sub(o.min(size)));
                note!(cx, "region.get_slice({:#x}, {:#x})", o, c);
                lclass(cx, size, o, c);
                match xr.region.get_slice(MemoryRegionAddress(o as u64), c) {
                    Ok(s) => {
                        ensure!(o as u128 + c as u128 <= size as u128, "region({:#x} bytes).get_slice({:#x},{:#x}) returned an accessor", size, o, c);
                        ensure!(s.len() == c, "region.get_slice length");
                        lex(&env, &s, o, "region.get_slice", t)?;
                        lgo(&s, o, &mut env, 1, t, cx)?;
                    }
                    Err(_) => cx.label("refused"),
                }
            } else {
                let s = xr.region.as_volatile_slice().map_err(|e| format!("region.as_volatile_slice: {:?}", e))?;
                ensure!(s.len() == size, "region.as_volatile_slice() has {} bytes, the region {}", s.len(), size);
                note!(cx, "region.as_volatile_slice()");
                lgo(&s, 0, &mut env, 1, t, cx)?;
            }
        }
        if env.depth_reached >= 2 {
            cx.nt("chain_depth_ge_2");
        }
        if env.depth_reached >= 4 {
            cx.label("chain_depth_ge_4");
        }
        Ok(())
    }
}

#[cfg(feature = "xen")]
fn run_logical(t: &mut Tape, cx: &mut Cx) -> Result<(), String> {
    logical::run(t, cx)
}

#[cfg(not(feature = "xen"))]
fn run_logical(_t: &mut Tape, _cx: &mut Cx) -> Result<(), String> {
    Ok(())
}

/// A foreign implementation of `VolatileMemory` whose `get_slice` hands out *less* than what was
/// asked (clamped to what is left) - the trait is safe to implement and its documentation says the
/// provided methods must not rely on `get_slice(offset, count).len() == count`. Whatever the
/// provided methods do with it (error, documented panic), they must not produce an accessor that
/// reaches beyond the memory the implementor owns.
struct Clamping {
    ptr: *mut u8,
    len: usize,
}

impl VolatileMemory for Clamping {
    type B = ();
    fn len(&self) -> usize {
        self.len
    }
    fn get_slice(&self, offset: usize, count: usize) -> vm_memory::volatile_memory::Result<VolatileSlice<'_, ()>> {
        if offset > self.len {
            return Err(vm_memory::VolatileMemoryError::OutOfBounds { addr: offset });
        }
        let n = count.min(self.len - offset);
        // SAFETY: [ptr+offset, +n) lies inside the memory this object owns.
        Ok(unsafe { VolatileSlice::new(self.ptr.add(offset), n) })
    }
}

fn clamp_one<T: Pod, X: Dummy>(c: &Clamping, off: usize, n: usize, fr: &Framed, cx: &mut Cx, _x: X) -> Result<(), String> {
    let parent = Ext { ptr: c.ptr as usize, len: c.len };
    let inside = |what: &str, e: Ext| -> Result<(), String> {
        ensure!(parent.contains(&e), "{}::<{}> at offset {} of a clamping implementor of {} bytes produced an accessor covering {:x?}, the implementor owns {:x?}", what, T::NAME, off, c.len, e, parent);
        Ok(())
    };
    if let Ok(Ok(r)) = no_panic(|| c.get_ref::<T>(off)) {
        let g = r.ptr_guard();
        inside("get_ref", Ext { ptr: g.as_ptr() as usize, len: g.len().max(T::N) })?;
        cx.label("clamped_accessor_inside");
    }
    if let Ok(Ok(a)) = no_panic(|| c.get_array_ref::<T>(off, n)) {
        let g = a.ptr_guard();
        inside("get_array_ref", Ext { ptr: g.as_ptr() as usize, len: g.len().max(a.len() * T::N) })?;
    }
    // SAFETY: the reference is not used beyond taking its address.
    if let Ok(Ok(p)) = no_panic(|| unsafe { c.aligned_as_ref::<T>(off).map(|r| r as *const T as usize) }) {
        inside("aligned_as_ref", Ext { ptr: p, len: size_of::<T>() })?;
    }
    // SAFETY: as above.
    if let Ok(Ok(p)) = no_panic(|| unsafe { c.aligned_as_mut::<T>(off).map(|r| r as *mut T as usize) }) {
        inside("aligned_as_mut", Ext { ptr: p, len: size_of::<T>() })?;
    }
    if let Ok(Ok(p)) = no_panic(|| c.get_atomic_ref::<AtomicU64>(off).map(|r| r as *const AtomicU64 as usize)) {
        inside("get_atomic_ref::<AtomicU64>", Ext { ptr: p, len: 8 })?;
    }
    fr.canaries_ok()
}

fn run_clamping(t: &mut Tape, cx: &mut Cx) -> Result<(), String> {
    let len = 1 + t.idx(40);
    let fr = Framed::new(len, t.idx(16));
    let c = Clamping { ptr: fr.ptr(), len };
    let sel = t.idx(NPOD);
    // offsets around the place where a T no longer fits
    let off = match t.below(3) {
        0 => len - t.idx(len.min(17) + 1),
        1 => t.idx(len + 2),
        _ => len,
    };
    let n = t.idx(6);
    note!(cx, "clamping implementor of {} bytes, element type #{}, offset {}, {} elements", len, sel, off, n);
    cx.nt("foreign_implementor");
    with_pod!(sel, clamp_one, &c, off, n, &fr, cx, ())
}

fn region_body(mem: &vm_memory::GuestMemoryMmap<()>, lay: &Layout, t: &mut Tape, cx: &mut Cx) -> Result<(), String> {
    let pts = lay.points();
    for _ in 0..(1 + t.idx(3)) {
        let ri = t.idx(lay.regs.len());
        let (rs, rl) = lay.regs[ri];
        let region = mem.iter().nth(ri).unwrap();
        let host = region.as_ptr() as usize;
        let rext = Ext { ptr: host, len: rl as usize };
        let root = Root { ext: rext, snapshot: rl <= 8192, frame: None };
        let mut env = Env { root: &root, depth_reached: 0 };
        match t.below(4) {
            0 => {
                // MmapRegion as VolatileMemory (std build) / region-wide slice
                let o = arg(t, rl as usize, host);
                let c = arg(t, (rl as usize).saturating_sub(o.min(rl as usize)), host);
                note!(cx, "region[{}].get_slice({:#x}, {:#x})", ri, o, c);
                classify_args(cx, rl as usize, host, o, c);
                let fits = o as u128 + c as u128 <= rl as u128;
                match region.get_slice(MemoryRegionAddress(o as u64), c) {
                    Ok(s) => {
                        ensure!(fits, "region({:#x}+{}).get_slice({:#x},{:#x}) returned an accessor", rs, rl, o, c);
                        ensure!(rext.contains(&Ext::of(&s)) && s.len() == c, "region.get_slice({:#x},{:#x}) = {:x?} outside the mapping {:x?}", o, c, Ext::of(&s), rext);
                        exercise(&env, &s, "region.get_slice", t)?;
                        go(&s, &mut env, 1, t, cx)?;
                    }
                    Err(_) => cx.label("refused"),
                }
            }
            1 => {
                let a = t.addr_near(&pts);
                let inreg = lay.find(a);
                let c = match inreg {
                    Some(i) => arg(t, (lay.regs[i].0 + lay.regs[i].1 - a) as usize, host),
                    None => arg(t, 8, host),
                };
                note!(cx, "mem.get_slice({:#x}, {:#x})", a, c);
                match mem.get_slice(GuestAddress(a), c) {
                    Ok(s) => {
                        let i = inreg.ok_or_else(|| format!("mem.get_slice({:#x},{:#x}) at an unmapped address returned an accessor", a, c))?;
                        let (s0, l0) = lay.regs[i];
                        ensure!((a - s0) as u128 + c as u128 <= l0 as u128, "mem.get_slice({:#x},{:#x}) exceeds region {:#x}+{}", a, c, s0, l0);
                        let e0 = Ext { ptr: mem.iter().nth(i).unwrap().as_ptr() as usize, len: l0 as usize };
                        ensure!(e0.contains(&Ext::of(&s)) && s.len() == c, "mem.get_slice({:#x},{:#x}) = {:x?} outside the mapping {:x?}", a, c, Ext::of(&s), e0);
                        let root2 = Root { ext: e0, snapshot: l0 <= 8192, frame: None };
                        let mut env2 = Env { root: &root2, depth_reached: 0 };
                        exercise(&env2, &s, "mem.get_slice", t)?;
                        go(&s, &mut env2, 1, t, cx)?;
                        env.depth_reached = env2.depth_reached;
                        if (a - s0) as u128 + c as u128 + 1 >= l0 as u128 {
                            cx.nt("arg_within_1_of_boundary");
                        }
                    }
                    Err(_) => cx.label("refused"),
                }
            }
            2 => {
                let a = t.addr_near(&pts);
                note!(cx, "mem.get_host_address({:#x})", a);
                match mem.get_host_address(GuestAddress(a)) {
                    Ok(p) => {
                        let i = lay.find(a).ok_or_else(|| format!("get_host_address({:#x}) of an unmapped address returned {:p}", a, p))?;
                        let e0 = Ext { ptr: mem.iter().nth(i).unwrap().as_ptr() as usize, len: lay.regs[i].1 as usize };
                        ensure!(e0.contains(&Ext { ptr: p as usize, len: 1 }), "get_host_address({:#x}) = {:p} outside the mapping {:x?}", a, p, e0);
                    }
                    Err(_) => cx.label("refused"),
                }
                let o = t.size_near(rl);
                match region.get_host_address(MemoryRegionAddress(o)) {
                    Ok(p) => {
                        ensure!(o < rl, "region.get_host_address({:#x}) of a {}-byte region returned a pointer", o, rl);
                        ensure!(rext.contains(&Ext { ptr: p as usize, len: 1 }), "region.get_host_address({:#x}) = {:p} outside {:x?}", o, p, rext);
                    }
                    Err(_) => cx.label("refused"),
                }
                if o.saturating_add(1) >= rl && o <= rl {
                    cx.nt("arg_within_1_of_boundary");
                }
            }
            _ => {
                let s = region.as_volatile_slice().map_err(|e| format!("region.as_volatile_slice: {:?}", e))?;
                ensure!(Ext::of(&s).ptr == host && s.len() == rl as usize, "region.as_volatile_slice() = {:x?}, mapping {:x?}", Ext::of(&s), rext);
                note!(cx, "region[{}].as_volatile_slice()", ri);
                go(&s, &mut env, 1, t, cx)?;
            }
        }
        finish(&env, cx);
    }
    Ok(())
}

pub fn property() -> Property {
    Property {
        id: "C01",
        rule: "a case = a parent (slice of 0..256 bytes at any alignment inside canaries; slice flush against a PROT_NONE page at either end; mapped region / guest memory) + a chain of up to 8 derivations (subslice, offset, split_at, get_slice, as_volatile_slice, ArrayRef::from, get_ref/get_array_ref/ref_at -> to_slice, aligned_as_ref/mut, get_atomic_ref and the atomic load/store of the same type at the same offset (answered only if fitting and aligned), from_slice/from_mut_slice, as_bytes/as_slice/as_mut_slice of an object between neighbours) with arguments from {in range, 0, len-1, len, len+1, 2len, 2^32+-k, isize::MAX+-k, usize::MAX-k, pointer-overflowing, uniform}; each successful derivation is followed by a write+read through the new accessor and a comparison of everything outside it; xen build: the same roots over emulated foreign / advance-mapped grant / Unix regions, and chains over regions without a stable host pointer (grant regions mapped on demand) whose extents are tracked logically and judged by the device contents (bytes seen through the accessor's guard = device bytes of exactly that range; a write changes exactly that range); non-trivial = chain depth >= 2, an argument within 1 of a boundary, or an overflowing argument; distinct = decoded (parent, chain)",
        assumptions: &["fitting requests are not required to succeed here (that is C04's business): only 'does not fit => error' and containment are asserted", "out-of-parent reads are detected by PROT_NONE guard pages (worker crash, attributed by the driver) and by AddressSanitizer in the fuzz tier"],
        subchecks: vec![
            SubCheck { name: "framed", builds: &[Build::Std, Build::Plain], kind: Kind::Random { quick: 60_000, thorough: 3_000_000, max_words: 64 }, run: run_framed },
            SubCheck { name: "guard_page", builds: &[Build::Std, Build::Plain], kind: Kind::Random { quick: 20_000, thorough: 1_000_000, max_words: 64 }, run: run_guard },
            SubCheck { name: "region", builds: &[Build::Std, Build::Xen], kind: Kind::Random { quick: 10_000, thorough: 400_000, max_words: 96 }, run: run_region },
            SubCheck { name: "xen_region", builds: &[Build::Xen], kind: Kind::Random { quick: 4_000, thorough: 200_000, max_words: 96 }, run: run_region_xen },
            SubCheck { name: "clamping_implementor", builds: &[Build::Std, Build::Plain], kind: Kind::Random { quick: 3_000, thorough: 200_000, max_words: 16 }, run: run_clamping },
            SubCheck { name: "xen_logical_chain", builds: &[Build::Xen], kind: Kind::Random { quick: 3_000, thorough: 150_000, max_words: 96 }, run: run_logical },
        ],
    }
}

#[allow(dead_code)]
fn _unused(_: Le32, _: Be64) {}
