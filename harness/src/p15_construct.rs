//! C15 – region construction accepts exactly the safe requests and builds what was asked.
//! Oracle: a decision table derived from the documented error conditions; the interposed
//! mmap/munmap log shows that a failed construction leaves nothing mapped; pread/pwrite show the
//! file coherence of shared file-backed regions.

use crate::common::*;
use crate::engine::*;
use crate::interpose::{self, Ev};
use crate::tape::Tape;
use crate::{ensure, note};
use std::os::unix::fs::FileExt;
use vm_memory::{FileOffset, GuestAddress, GuestMemoryMmap, GuestMemoryRegion, GuestRegionMmap, VolatileMemory};

const PS: usize = 4096;

fn leftovers(log: &[Ev]) -> Vec<(usize, usize)> {
    interpose::live_after(log)
}

#[cfg(not(feature = "xen"))]
mod std_build {
    use super::*;
    use vm_memory::mmap::{MmapRegionBuilder, MmapRegionError};
    use vm_memory::{Bytes, MmapRegion};

    fn ename(e: &MmapRegionError) -> &'static str {
        match e {
            MmapRegionError::InvalidOffsetLength => "InvalidOffsetLength",
            MmapRegionError::InvalidPointer => "InvalidPointer",
            MmapRegionError::MapFixed => "MapFixed",
            MmapRegionError::MappingOverlap => "MappingOverlap",
            MmapRegionError::MappingPastEof => "MappingPastEof",
            MmapRegionError::Mmap(_) => "Mmap",
            MmapRegionError::SeekEnd(_) => "SeekEnd",
            MmapRegionError::SeekStart(_) => "SeekStart",
        }
    }

    pub fn run_build(t: &mut Tape, cx: &mut Cx) -> Result<(), String> {
        ensure!(interpose::installed(), "harness: mmap interposer not installed");
        let size = match t.below(8) {
            0 => 1,
            1 => PS - 1,
            2 => PS,
            3 => PS + 1,
            4 => 3 * PS,
            5 => 0,
            _ => 1 + t.idx(3 * PS),
        };
        let with_file = t.chance(3, 5);
        let flen: u64 = t.pick(&[0u64, PS as u64, 2 * PS as u64, 2 * PS as u64 + 17, 3 * PS as u64]);
        let offset: u64 = if !with_file {
            0
        } else {
            match t.below(9) {
                0 => 0,
                1 => PS as u64,
                2 => 2 * PS as u64,
                3 => (flen as i128 - size as i128).max(0) as u64,               // offset+size == L (maybe unaligned)
                4 => ((flen as i128 - size as i128).max(0) as u64) / PS as u64 * PS as u64, // aligned, fits
                5 => (flen as i128 - size as i128 + 1).max(0) as u64,           // one past EOF
                6 => u64::MAX - t.below(2 * PS as u64),                          // overflowing
                7 => (u64::MAX - size as u64).saturating_add(t.below(3)),                        // around the overflow boundary
                _ => t.below(flen + PS as u64),
            }
        };
        let share = t.below(4); // 0 private 1 shared 2 neither 3 both
        let mut flags = match share {
            0 => libc::MAP_PRIVATE,
            1 => libc::MAP_SHARED,
            2 => 0,
            _ => libc::MAP_PRIVATE | libc::MAP_SHARED,
        };
        let anon = if with_file { t.chance(1, 8) } else { !t.chance(1, 8) };
        if anon {
            flags |= libc::MAP_ANONYMOUS;
        }
        if t.flag() {
            flags |= libc::MAP_NORESERVE;
        }
        let fixed = t.chance(1, 5);
        if fixed {
            flags |= libc::MAP_FIXED;
        }
        let prot = t.pick(&[libc::PROT_READ | libc::PROT_WRITE, libc::PROT_READ | libc::PROT_WRITE, libc::PROT_READ, libc::PROT_NONE, libc::PROT_READ | libc::PROT_WRITE | libc::PROT_EXEC, libc::PROT_WRITE]);
        let entry = t.below(3); // 0 MmapRegion::build 1 builder chain 2 new/from_file conveniences
        let file = if with_file { Some(memfd(flen)) } else { None };
        let dup = file.as_ref().map(|f| f.try_clone().unwrap());
        let via_arc = t.flag();
        let fo = file.map(|f| if via_arc { FileOffset::from_arc(std::sync::Arc::new(f), offset) } else { FileOffset::new(f, offset) });
        if let Some(f) = &fo {
            // the file-range test the constructors rely on, asked directly
            ensure!(f.start() == offset, "FileOffset::start() = {:#x}, constructed with {:#x}", f.start(), offset);
            let direct = vm_memory::mmap::check_file_offset(f, size);
            let want = match offset.checked_add(size as u64) {
                None => Some("InvalidOffsetLength"),
                Some(end) if end > flen => Some("MappingPastEof"),
                _ => None,
            };
            match (&direct, want) {
                (Ok(()), None) => {}
                (Err(e), Some(w)) => ensure!(ename(e) == w, "check_file_offset(offset {:#x}, size {:#x}, file of {}) failed with {}, expected {}", offset, size, flen, ename(e), w),
                (r, w) => return Err(format!("check_file_offset(offset {:#x}, size {:#x}, file of {}) returned {:?}, expected {:?}", offset, size, flen, r.as_ref().map_err(ename), w)),
            }
        }

        // ---- decision table
        let mut must_fail: Vec<&'static str> = Vec::new();
        let (eff_flags, eff_prot) = if entry == 2 {
            if with_file { (libc::MAP_NORESERVE | libc::MAP_SHARED, libc::PROT_READ | libc::PROT_WRITE) } else { (libc::MAP_ANONYMOUS | libc::MAP_NORESERVE | libc::MAP_PRIVATE, libc::PROT_READ | libc::PROT_WRITE) }
        } else {
            (flags, prot)
        };
        if eff_flags & libc::MAP_FIXED != 0 {
            must_fail.push("MapFixed");
        }
        if with_file {
            match offset.checked_add(size as u64) {
                None => must_fail.push("InvalidOffsetLength"),
                Some(end) if end > flen => must_fail.push("MappingPastEof"),
                _ => {}
            }
        }
        let sh = eff_flags & (libc::MAP_PRIVATE | libc::MAP_SHARED);
        let good_share = sh == libc::MAP_PRIVATE || sh == libc::MAP_SHARED;
        let known_good = must_fail.is_empty()
            && size > 0
            && good_share
            && (if with_file { eff_flags & libc::MAP_ANONYMOUS == 0 && offset % PS as u64 == 0 } else { eff_flags & libc::MAP_ANONYMOUS != 0 })
            && [libc::PROT_READ | libc::PROT_WRITE, libc::PROT_READ, libc::PROT_NONE].contains(&eff_prot)
            && !(with_file && sh == libc::MAP_SHARED && eff_prot & libc::PROT_WRITE != 0 && false);
        note!(cx, "entry {} size {:#x} file {:?} offset {:#x} flags {:#x} prot {:#x} => must_fail {:?} known_good {}", entry, size, if with_file { Some(flen) } else { None }, offset, eff_flags, eff_prot, must_fail, known_good);
        if with_file {
            let end = offset as u128 + size as u128;
            if end.abs_diff(flen as u128) <= 1 || end >= (1u128 << 64) - 2 {
                cx.nt("file_range_at_boundary");
            }
        }
        if fixed && entry != 2 {
            cx.nt("map_fixed_requested");
        }

        let mut hint: Option<bool> = None;
        interpose::begin();
        let r: Result<MmapRegion<()>, MmapRegionError> = match entry {
            0 => MmapRegion::build(fo.clone(), size, prot, flags),
            1 => {
                let mut b = MmapRegionBuilder::new(size);
                if t.chance(1, 3) {
                    // a setter called again replaces the earlier value
                    b = b.with_mmap_prot(libc::PROT_READ | libc::PROT_WRITE | libc::PROT_EXEC).with_mmap_flags(libc::MAP_PRIVATE | libc::MAP_ANONYMOUS | libc::MAP_NORESERVE | libc::MAP_FIXED).with_hugetlbfs(true);
                    cx.nt("builder_setters_called_twice");
                    hint = Some(true);
                }
                b = b.with_mmap_prot(prot).with_mmap_flags(flags);
                if let Some(f) = fo.clone() {
                    b = b.with_file_offset(f);
                }
                let h2 = match t.below(3) {
                    0 => None,
                    1 => Some(false),
                    _ => Some(true),
                };
                if let Some(h) = h2 {
                    b = b.with_hugetlbfs(h);
                    hint = Some(h);
                }
                b.build()
            }
            _ => match fo.clone() {
                Some(f) => MmapRegion::from_file(f, size),
                None => MmapRegion::new(size),
            },
        };
        let log_build = interpose::take();
        match r {
            Err(e) => {
                let _ = interpose::end();
                let left = leftovers(&log_build);
                ensure!(left.is_empty(), "construction failed with {} but left mappings behind: {:x?} (log {:x?})", ename(&e), left, log_build);
                ensure!(!known_good, "a safe, consistent request was refused with {} ({:?})", ename(&e), e);
                if !must_fail.is_empty() {
                    ensure!(must_fail.contains(&ename(&e)), "request must fail with one of {:?} but failed with {} ({:?})", must_fail, ename(&e), e);
                    cx.nt("refused_by_table");
                } else {
                    ensure!(ename(&e) == "Mmap", "request outside the table failed with {} instead of the OS error", ename(&e));
                    cx.label("refused_by_os");
                }
            }
            Ok(region) => {
                ensure!(must_fail.is_empty(), "request that must fail with {:?} produced a region (size {:#x}, file len {}, offset {:#x}, flags {:#x})", must_fail, size, flen, offset, eff_flags);
                ensure!(region.size() == size && region.len() == size, "region.size() = {:#x}, asked {:#x}", region.size(), size);
                ensure!(region.prot() == eff_prot, "region.prot() = {:#x}, asked {:#x}", region.prot(), eff_prot);
                ensure!(region.flags() == eff_flags, "region.flags() = {:#x}, asked {:#x}", region.flags(), eff_flags);
                ensure!(region.owned(), "a region mapped by the library reports owned() == false");
                ensure!(region.is_hugetlbfs() == hint, "is_hugetlbfs() = {:?}, the builder was told {:?}", region.is_hugetlbfs(), hint);
                match (region.file_offset(), &fo) {
                    (None, None) => {}
                    (Some(a), Some(b)) => ensure!(a.start() == b.start() && std::sync::Arc::ptr_eq(a.arc(), b.arc()), "file_offset() reports start {:#x}, asked {:#x}", a.start(), b.start()),
                    (a, b) => return Err(format!("file_offset() is {:?}, asked {:?}", a.map(|x| x.start()), b.as_ref().map(|x| x.start()))),
                }
                // exactly one mapping of exactly that size was created, at the reported address
                let maps: Vec<&Ev> = log_build.iter().filter(|e| matches!(e, Ev::Mmap { .. })).collect();
                ensure!(maps.len() == 1, "construction issued {} mmap calls: {:x?}", maps.len(), log_build);
                if let Ev::Mmap { ret, len, prot: p, flags: f, off, .. } = maps[0] {
                    ensure!(*ret == region.as_ptr() as usize && *len == size && *p == eff_prot && *f == eff_flags && *off as u64 == offset, "the mapping created ({:x?}) is not what the region reports / what was asked", maps[0]);
                }
                // file coherence in both directions
                let coherent = with_file && eff_flags & libc::MAP_ANONYMOUS == 0 && sh == libc::MAP_SHARED && eff_prot == (libc::PROT_READ | libc::PROT_WRITE);
                if coherent {
                    let f = dup.as_ref().unwrap();
                    let vs = region.as_volatile_slice();
                    for i in [0usize, size - 1, t.idx(size), t.idx(size)] {
                        let v = (i as u8).wrapping_mul(3).wrapping_add(t.below(200) as u8) | 1;
                        vs.write_obj(v, i).map_err(|e| format!("write_obj: {:?}", e))?;
                        let got = pread_all(f, offset + i as u64, 1);
                        ensure!(got == [v], "byte {} written through the region is {:x?} at file offset {:#x}+{} (expected {:#04x})", i, got, offset, i, v);
                        let w = v.wrapping_add(0x55);
                        f.write_all_at(&[w], offset + i as u64).map_err(|e| e.to_string())?;
                        let back: u8 = vs.read_obj(i).map_err(|e| format!("read_obj: {:?}", e))?;
                        ensure!(back == w, "byte written to the file at {:#x}+{} reads {:#04x} through the region (expected {:#04x})", offset, i, back, w);
                    }
                    if offset > 0 {
                        cx.nt("coherent_at_nonzero_offset");
                    }
                }
                // the same attributes through the guest-region interface
                let (addr, _) = (region.as_ptr() as usize, ());
                let gbase = 0x1000u64 * (1 + t.below(4));
                let region = vm_memory::GuestRegionMmap::new(region, vm_memory::GuestAddress(gbase)).map_err(|e| format!("GuestRegionMmap::new: {:?}", e))?;
                {
                    use vm_memory::GuestMemoryRegion;
                    ensure!(GuestMemoryRegion::len(&region) == size as u64 && region.start_addr().0 == gbase && region.last_addr().0 == gbase + size as u64 - 1, "guest region len/start/last = {:#x}/{:#x}/{:#x} for size {:#x} at {:#x}", GuestMemoryRegion::len(&region), region.start_addr().0, region.last_addr().0, size, gbase);
                    match (GuestMemoryRegion::file_offset(&region), &fo) {
                        (None, None) => {}
                        (Some(a), Some(b)) => ensure!(a.start() == b.start() && std::sync::Arc::ptr_eq(a.arc(), b.arc()), "GuestMemoryRegion::file_offset() reports start {:#x}, asked {:#x}", a.start(), b.start()),
                        (a, b) => return Err(format!("GuestMemoryRegion::file_offset() is {:?}, the region was created with {:?} (flags {:#x})", a.map(|x| x.start()), b.as_ref().map(|x| x.start()), eff_flags)),
                    }
                    ensure!(GuestMemoryRegion::is_hugetlbfs(&region) == hint, "GuestMemoryRegion::is_hugetlbfs() = {:?}, the builder was told {:?}", GuestMemoryRegion::is_hugetlbfs(&region), hint);
                    ensure!(region.get_host_address(vm_memory::MemoryRegionAddress(size as u64 - 1)).map(|p| p as usize).ok() == Some(addr + size - 1), "get_host_address(last) is not the last byte of the mapping");
                }
                // dropping the region releases exactly its mapping
                drop(region);
                let log_drop = interpose::end();
                let un: Vec<&Ev> = log_drop.iter().filter(|e| matches!(e, Ev::Munmap { .. })).collect();
                ensure!(un.len() == 1 && matches!(un[0], Ev::Munmap { addr: a, len: l, ret: 0 } if *a == addr && *l == size), "dropping the region issued {:x?}, expected exactly one munmap({:#x}, {:#x})", log_drop, addr, size);
                cx.label("built");
            }
        }
        Ok(())
    }

    pub fn run_raw(t: &mut Tape, cx: &mut Cx) -> Result<(), String> {
        // externally provided mapping, page-aligned or misaligned pointer
        let pages = 1 + t.idx(3);
        // SAFETY: harness-owned anonymous mapping.
        let base = unsafe { libc::syscall(libc::SYS_mmap, 0usize, pages * PS, libc::PROT_READ | libc::PROT_WRITE, libc::MAP_PRIVATE | libc::MAP_ANONYMOUS, -1isize, 0usize) } as usize;
        ensure!(base != usize::MAX, "harness mmap failed");
        let mis = match t.below(5) {
            0 | 1 => 0,
            2 => 1,
            3 => PS - 1,
            _ => 1 + t.idx(PS - 1),
        };
        let size = 1 + t.idx(pages * PS - mis);
        let prot = libc::PROT_READ | libc::PROT_WRITE;
        let flags = libc::MAP_PRIVATE | libc::MAP_ANONYMOUS | if t.flag() { libc::MAP_FIXED } else { 0 };
        if t.chance(1, 6) {
            // the null pointer is page-aligned: a region around it is what was asked for (it is
            // never accessed here)
            note!(cx, "build_raw(null, size {:#x}, flags {:#x}) {}", size, flags, if t.flag() { "via the builder" } else { "" });
            cx.nt("raw_null_pointer");
            interpose::begin();
            // SAFETY: the region is only inspected, never accessed.
            let r = if t.flag() {
                unsafe { MmapRegionBuilder::<()>::new(size).with_raw_mmap_pointer(std::ptr::null_mut()).with_mmap_prot(prot).with_mmap_flags(flags).build() }
            } else {
                unsafe { MmapRegion::<()>::build_raw(std::ptr::null_mut(), size, prot, flags) }
            };
            let res = match r {
                Ok(region) => {
                    ensure!(region.as_ptr().is_null() && !region.owned() && region.size() == size && region.prot() == prot && region.flags() == flags, "a region requested around the null pointer reports ptr {:p}, owned {}, size {:#x}, prot {:#x}, flags {:#x}", region.as_ptr(), region.owned(), region.size(), region.prot(), region.flags());
                    drop(region);
                    Ok(())
                }
                Err(e) => Err(format!("a page-aligned (null) external pointer was refused: {:?}", e)),
            };
            let log = interpose::end();
            ensure!(log.is_empty(), "a region around an externally provided (null) pointer issued mapping calls: {:x?}", log);
            // SAFETY: releasing the harness mapping.
            unsafe { libc::syscall(libc::SYS_munmap, base, pages * PS) };
            return res;
        }
        note!(cx, "build_raw(ptr page+{}, size {:#x}, flags {:#x})", mis, size, flags);
        cx.nt(if mis == 0 { "raw_aligned" } else { "raw_misaligned" });
        // the builder also lets a caller name the file that backs its mapping
        let fo = if t.chance(1, 3) { Some(FileOffset::new(memfd((pages * PS) as u64), (PS * t.idx(2)) as u64)) } else { None };
        interpose::begin();
        // SAFETY: the range lies inside the harness mapping, which outlives the region.
        let r = unsafe {
            match &fo {
                Some(f) => {
                    cx.nt("raw_with_file_offset");
                    MmapRegionBuilder::<()>::new(size).with_raw_mmap_pointer((base + mis) as *mut u8).with_file_offset(f.clone()).with_mmap_prot(prot).with_mmap_flags(flags).build()
                }
                None => MmapRegion::<()>::build_raw((base + mis) as *mut u8, size, prot, flags),
            }
        };
        let res = match r {
            Err(e) => {
                ensure!(mis != 0, "page-aligned external pointer refused: {:?}", e);
                ensure!(ename(&e) == "InvalidPointer", "misaligned external pointer refused with {}", ename(&e));
                Ok(())
            }
            Ok(region) => {
                ensure!(mis == 0, "misaligned external pointer (page+{}) accepted", mis);
                ensure!(!region.owned(), "region around an external mapping reports owned() == true");
                ensure!(region.as_ptr() as usize == base && region.size() == size && region.prot() == prot && region.flags() == flags, "raw region attributes differ from the request");
                match (region.file_offset(), &fo) {
                    (None, None) => {}
                    (Some(a), Some(b)) => ensure!(a.start() == b.start() && std::sync::Arc::ptr_eq(a.arc(), b.arc()), "raw region: file_offset() reports start {:#x}, asked {:#x}", a.start(), b.start()),
                    (a, b) => return Err(format!("raw region: file_offset() is {:?}, the builder was given {:?}", a.map(|x| x.start()), b.as_ref().map(|x| x.start()))),
                }
                drop(region);
                Ok(())
            }
        };
        let log = interpose::end();
        ensure!(log.is_empty(), "build_raw / drop of a raw region issued mapping calls: {:x?}", log);
        ensure!(interpose::proc_maps_covers(base, pages * PS), "the externally provided mapping was unmapped by the library");
        // SAFETY: releasing the harness mapping.
        unsafe { libc::syscall(libc::SYS_munmap, base, pages * PS) };
        res
    }
}

/// Guest-level construction: base + size against 2^64, from_ranges_with_files whose k-th element fails.
fn run_guest(t: &mut Tape, cx: &mut Cx) -> Result<(), String> {
    ensure!(interpose::installed(), "harness: mmap interposer not installed");
    if t.flag() {
        let size = t.pick(&[1usize, PS, PS + 1, 2 * PS]);
        let k = t.below(7) as i128 - 3;
        let base = (1i128 << 64) + k - size as i128;
        if base > u64::MAX as i128 {
            cx.discard = Some("base does not fit");
            return Ok(());
        }
        let base = base as u64;
        note!(cx, "GuestRegionMmap::from_range(base {:#x}, size {:#x}) base+size = 2^64{:+}", base, size, k);
        cx.nt("base_plus_size_near_2_64");
        let file = if t.flag() { Some(FileOffset::new(memfd(2 * PS as u64), 0)) } else { None };
        interpose::begin();
        let r = GuestRegionMmap::<()>::from_range(GuestAddress(base), size, file);
        let log = interpose::take();
        match r {
            Err(e) => {
                let _ = interpose::end();
                ensure!(k >= 0, "region with base+size below 2^64 refused: {:?}", e);
                ensure!(matches!(e, vm_memory::mmap::Error::InvalidGuestRegion), "base+size beyond the address space refused with {:?} instead of InvalidGuestRegion", e);
                let left = leftovers(&log);
                ensure!(left.is_empty(), "refused creation left mappings behind: {:x?}", left);
            }
            Ok(r) => {
                ensure!(k <= 0, "region with base {:#x} + size {:#x} beyond the address space was created", base, size);
                ensure!(r.start_addr().0 == base && r.len() == size as u64, "created region reports {:#x}+{:#x}", r.start_addr().0, r.len());
                drop(r);
                let l2 = interpose::end();
                ensure!(l2.iter().filter(|e| matches!(e, Ev::Munmap { ret: 0, .. })).count() == 1, "drop of the region issued {:x?}", l2);
            }
        }
    } else {
        // from_ranges_with_files: element k is invalid (past EOF / overlapping / unsorted)
        let n = 2 + t.idx(3);
        let bad = t.idx(n + 1); // == n: all valid
        let kind = t.below(3);
        let mut ranges = Vec::new();
        for i in 0..n {
            let flen = 2 * PS as u64;
            let (addr, size, off) = (0x10000 * (i as u64 + 1), PS, if i == bad && kind == 0 { flen } else { 0 });
            let addr = if i == bad && kind == 1 && i > 0 { 0x10000 * i as u64 + (PS as u64 - 1) } else if i == bad && kind == 2 && i > 0 { 0x8000 } else { addr };
            let f = if t.flag() || off > 0 { Some(FileOffset::new(memfd(flen), off)) } else { None };
            ranges.push((GuestAddress(addr), size, f));
        }
        let invalid = bad < n && (kind == 0 || bad > 0);
        note!(cx, "from_ranges_with_files({} ranges, element {} invalid kind {})", n, if invalid { bad as i64 } else { -1 }, kind);
        cx.nt(if invalid { "partial_construction_fails" } else { "list_construction" });
        interpose::begin();
        let r = GuestMemoryMmap::<()>::from_ranges_with_files(ranges.iter());
        let log = interpose::take();
        match r {
            Err(e) => {
                let _ = interpose::end();
                ensure!(invalid, "valid range list refused: {:?}", e);
                let left = leftovers(&log);
                ensure!(left.is_empty(), "failed list construction ({:?}) left {} mapping(s) behind: {:x?}", e, left.len(), left);
            }
            Ok(m) => {
                ensure!(!invalid, "range list with an invalid element {} (kind {}) accepted", bad, kind);
                let created = leftovers(&log).len();
                ensure!(created == n, "{} mappings alive after building {} regions", created, n);
                drop(m);
                let l2 = interpose::end();
                ensure!(l2.iter().filter(|e| matches!(e, Ev::Munmap { ret: 0, .. })).count() == n, "dropping the map released {:x?}, expected {} munmaps", l2, n);
            }
        }
    }
    Ok(())
}

#[cfg(not(feature = "xen"))]
fn run_build(t: &mut Tape, cx: &mut Cx) -> Result<(), String> {
    std_build::run_build(t, cx)
}
#[cfg(not(feature = "xen"))]
fn run_raw(t: &mut Tape, cx: &mut Cx) -> Result<(), String> {
    std_build::run_raw(t, cx)
}
#[cfg(feature = "xen")]
fn run_build(_t: &mut Tape, _cx: &mut Cx) -> Result<(), String> {
    Ok(())
}
#[cfg(feature = "xen")]
fn run_raw(_t: &mut Tape, _cx: &mut Cx) -> Result<(), String> {
    Ok(())
}

pub fn property() -> Property {
    let mut subchecks = vec![
        SubCheck { name: "build", builds: &[Build::Std], kind: Kind::Random { quick: 12_000, thorough: 500_000, max_words: 40 }, run: run_build },
        SubCheck { name: "raw", builds: &[Build::Std], kind: Kind::Random { quick: 3_000, thorough: 100_000, max_words: 16 }, run: run_raw },
        SubCheck { name: "guest", builds: &[Build::Std, Build::Xen], kind: Kind::Random { quick: 4_000, thorough: 150_000, max_words: 32 }, run: run_guest },
    ];
    subchecks.extend(crate::xen_emul::c15_subchecks());
    Property {
        id: "C15",
        rule: "a case = one construction request: MmapRegion::build / MmapRegionBuilder / new / from_file with sizes {0, 1, page-1, page, page+1, 3 pages, random}, files of length {0, 1, 2, 2+17 bytes, 3 pages} and offsets placed so that offset+size is L-1, L, L+1, overflowing or unaligned, share flags {private, shared, neither, both} x anonymous x noreserve x MAP_FIXED, prot words; build_raw with aligned and misaligned pointers; GuestRegionMmap with base+size in 2^64-3..2^64+3; from_ranges_with_files whose k-th element is past EOF / overlapping / unsorted; xen build: every Xen mapping-flag word 0x0..0xF plus unknown bits x file present/absent x file offset {0, page, 0x800, page+1, EOF-size, EOF-size+1, 2 pages} over emulated devices, a xen-unix file region that is produced is compared with the file in both directions; oracle = decision table of the documented error conditions (several conditions => any of their errors), attributes of the built region, the interposed mmap/munmap log (nothing left mapped after a failure, exactly one munmap on drop, none for raw), pread/pwrite coherence at first/last/random bytes; non-trivial = request within 1 of a table boundary, MAP_FIXED, refused by the table, raw pointer, base+size near 2^64, partial list construction, a Xen flag word; distinct = decoded request",
        assumptions: &["requests outside the decision table that the OS may refuse accept both Ok(with correct attributes) and Err(Mmap)", "base+size == 2^64 is a don't-care"],
        subchecks,
    }
}
