//! Log of the process' mmap/munmap calls. The harness *binary* defines the C symbols `mmap` and
//! `munmap` (see main.rs); the `libc` crate's calls made by vm-memory bind to them, the real work
//! is done with `syscall(2)`, and every call is reported here. Not used under AddressSanitizer
//! (which interposes the same symbols): the fuzz targets do not define the symbols.

use std::sync::atomic::{AtomicBool, Ordering};
use std::sync::Mutex;

#[derive(Clone, Debug, PartialEq)]
pub enum Ev {
    Mmap { ret: usize, len: usize, prot: i32, flags: i32, fd: i32, off: i64 },
    Munmap { addr: usize, len: usize, ret: i32 },
}

static RECORDING: AtomicBool = AtomicBool::new(false);
static INSTALLED: AtomicBool = AtomicBool::new(false);
static LOG: Mutex<Vec<Ev>> = Mutex::new(Vec::new());

pub fn installed() -> bool {
    INSTALLED.load(Ordering::SeqCst)
}

pub fn mark_installed() {
    INSTALLED.store(true, Ordering::SeqCst);
}

pub fn begin() {
    LOG.lock().unwrap().clear();
    RECORDING.store(true, Ordering::SeqCst);
}

pub fn take() -> Vec<Ev> {
    std::mem::take(&mut *LOG.lock().unwrap())
}

/// the log so far, without consuming it
pub fn peek() -> Vec<Ev> {
    LOG.lock().unwrap().clone()
}

/// forget everything recorded after the first `keep` events
pub fn drop_tail(keep: usize) {
    LOG.lock().unwrap().truncate(keep);
}

pub fn end() -> Vec<Ev> {
    RECORDING.store(false, Ordering::SeqCst);
    take()
}

pub fn report(ev: Ev) {
    if RECORDING.load(Ordering::Relaxed) {
        if let Ok(mut l) = LOG.try_lock() {
            l.push(ev);
        }
    }
}

/// Mappings created and not yet released according to a log.
pub fn live_after(log: &[Ev]) -> Vec<(usize, usize)> {
    let mut live: Vec<(usize, usize)> = Vec::new();
    for e in log {
        match e {
            Ev::Mmap { ret, len, .. } if *ret != usize::MAX => live.push((*ret, *len)),
            Ev::Munmap { addr, len, ret } if *ret == 0 => {
                if let Some(p) = live.iter().position(|x| x.0 == *addr && x.1 == *len) {
                    live.remove(p);
                } else {
                    // partial / foreign unmap: remove anything fully covered
                    live.retain(|x| !(x.0 >= *addr && x.0 + x.1 <= addr + len));
                }
            }
            _ => {}
        }
    }
    live
}

/// Is `[addr, addr+len)` fully mapped according to /proc/self/maps?
pub fn proc_maps_covers(addr: usize, len: usize) -> bool {
    let s = match std::fs::read_to_string("/proc/self/maps") {
        Ok(s) => s,
        Err(_) => return true,
    };
    let mut cur = addr;
    let end = addr + len;
    // entries are sorted by address
    for line in s.lines() {
        let range = line.split(' ').next().unwrap_or("");
        let mut it = range.split('-');
        let (a, b) = match (it.next().and_then(|x| usize::from_str_radix(x, 16).ok()), it.next().and_then(|x| usize::from_str_radix(x, 16).ok())) {
            (Some(a), Some(b)) => (a, b),
            _ => continue,
        };
        if b <= cur {
            continue;
        }
        if a > cur {
            return false;
        }
        cur = b;
        if cur >= end {
            return true;
        }
    }
    cur >= end
}
