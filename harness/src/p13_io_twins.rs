//! C13 – volatile stream adapters transfer data exactly like their std::io counterparts.
//! Oracle: differential twin – the same call sequence on the std adapter with an ordinary buffer.

use crate::common::*;
use crate::engine::*;
use crate::tape::Tape;
use crate::{ensure, note};
use std::io::{Cursor, ErrorKind, Read, Seek, SeekFrom, Write};
use std::os::fd::{AsFd, OwnedFd};
use vm_memory::{ReadVolatile, VolatileMemoryError, VolatileSlice, WriteVolatile};

const FILLB: u8 = 0xE1;

fn buflen(t: &mut Tape) -> usize {
    match t.below(5) {
        0 => 7 + t.idx(3),
        1 => 0,
        _ => t.idx(25),
    }
}

fn kind_of(e: &VolatileMemoryError) -> Option<ErrorKind> {
    match e {
        VolatileMemoryError::IOError(e) => Some(e.kind()),
        _ => None,
    }
}

fn cmp_count(what: &str, v: &Result<usize, VolatileMemoryError>, s: &std::io::Result<usize>) -> Result<Option<usize>, String> {
    match (v, s) {
        (Ok(a), Ok(b)) => {
            ensure!(a == b, "{}: volatile adapter returned Ok({}), std returned Ok({})", what, a, b);
            Ok(Some(*a))
        }
        (Err(e), Err(se)) => {
            ensure!(kind_of(e) == Some(se.kind()), "{}: volatile adapter failed with {:?}, std with {:?}", what, e, se.kind());
            Ok(None)
        }
        (a, b) => Err(format!("{}: volatile adapter returned {:?}, std returned {:?}", what, a, b)),
    }
}

fn cmp_unit(what: &str, v: &Result<(), VolatileMemoryError>, s: &std::io::Result<()>) -> Result<bool, String> {
    match (v, s) {
        (Ok(()), Ok(())) => Ok(true),
        (Err(e), Err(se)) => {
            ensure!(kind_of(e) == Some(se.kind()), "{}: volatile adapter failed with {:?}, std with {:?}", what, e, se.kind());
            Ok(false)
        }
        (a, b) => Err(format!("{}: volatile adapter returned {:?}, std returned {:?}", what, a, b.as_ref().map_err(|e| e.kind()))),
    }
}

/// A pair of equal-length buffers: volatile (inside canaries) and std.
struct Bufs {
    fr: Framed,
    sbuf: Vec<u8>,
}

impl Bufs {
    fn new(len: usize, t: &mut Tape, for_write: bool) -> Self {
        let mut fr = Framed::new(len, t.idx(16));
        let seed = t.word();
        if for_write {
            fr.fill(|i| (seed as u8).wrapping_add((i as u8).wrapping_mul(29)));
        } else {
            fr.fill(|_| FILLB);
        }
        let sbuf = fr.contents();
        Bufs { fr, sbuf }
    }
    fn check_read(&self, what: &str, n: Option<usize>) -> Result<(), String> {
        let v = self.fr.contents();
        if let Some(n) = n {
            ensure!(v[..n] == self.sbuf[..n], "{}: bytes landed differ: volatile {} vs std {}", what, hexs(&v[..n]), hexs(&self.sbuf[..n]));
            ensure!(v[n..].iter().all(|b| *b == FILLB), "{}: the volatile adapter touched the buffer beyond the {} bytes it reported", what, n);
        }
        self.fr.canaries_ok().map_err(|e| format!("{}: {}", what, e))
    }
}

fn run_memory(t: &mut Tape, cx: &mut Cx) -> Result<(), String> {
    let adapter = t.below(6);
    let slen = match t.below(4) {
        0 => 0,
        1 => 8,
        _ => t.idx(41),
    };
    let content = t.bytes(slen);
    let ncalls = 1 + t.idx(8);
    let mut short_seen = false;
    match adapter {
        0 => {
            // &[u8] as a reader
            let mut v: &[u8] = &content;
            let mut s: &[u8] = &content;
            note!(cx, "&[u8] reader of {} bytes", slen);
            for c in 0..ncalls {
                let bl = buflen(t);
                let mut b = Bufs::new(bl, t, false);
                let exact = t.flag();
                let what = format!("&[u8]({} left).{}(buf {})", v.len(), if exact { "read_exact" } else { "read" }, bl);
                note!(cx, "{}", what);
                classify(cx, bl, v.len(), c, short_seen);
                if exact {
                    let rv = v.read_exact_volatile(&mut b.fr.slice());
                    let rs = s.read_exact(&mut b.sbuf);
                    if !cmp_unit(&what, &rv, &rs)? {
                        b.fr.canaries_ok()?;
                        cx.count("failed_exact_resync", 1);
                        break;
                    }
                    b.check_read(&what, Some(bl))?;
                } else {
                    let rv = v.read_volatile(&mut b.fr.slice());
                    let rs = s.read(&mut b.sbuf);
                    let n = cmp_count(&what, &rv, &rs)?;
                    if n.map(|n| n < bl).unwrap_or(false) {
                        short_seen = true;
                    }
                    b.check_read(&what, n)?;
                }
                ensure!(v.len() == s.len() && v == s, "{}: remaining stream differs: volatile {} bytes left, std {}", what, v.len(), s.len());
            }
        }
        1 | 2 => {
            // Cursor<&[u8]> / Cursor<Vec<u8>> as readers
            let pos0 = match t.below(5) {
                0 => 0,
                1 => slen as u64,
                2 => slen as u64 + 1 + t.below(5),
                3 => u64::MAX - t.below(3),
                _ => t.below(slen as u64 + 1),
            };
            note!(cx, "Cursor reader over {} bytes at position {:#x}", slen, pos0);
            if pos0 > slen as u64 {
                cx.nt("cursor_past_end");
            }
            macro_rules! drive {
                ($v:expr, $s:expr) => {{
                    let (mut v, mut s) = ($v, $s);
                    v.set_position(pos0);
                    s.set_position(pos0);
                    for c in 0..ncalls {
                        let bl = buflen(t);
                        let mut b = Bufs::new(bl, t, false);
                        let exact = t.flag();
                        let what = format!("Cursor(pos {:#x}/{}).{}(buf {})", v.position(), slen, if exact { "read_exact" } else { "read" }, bl);
                        note!(cx, "{}", what);
                        classify(cx, bl, slen.saturating_sub(v.position().min(slen as u64) as usize), c, short_seen);
                        if exact {
                            let rv = v.read_exact_volatile(&mut b.fr.slice());
                            let rs = s.read_exact(&mut b.sbuf);
                            if !cmp_unit(&what, &rv, &rs)? {
                                b.fr.canaries_ok()?;
                                cx.count("failed_exact_resync", 1);
                                break;
                            }
                            b.check_read(&what, Some(bl))?;
                        } else {
                            let rv = v.read_volatile(&mut b.fr.slice());
                            let rs = s.read(&mut b.sbuf);
                            let n = cmp_count(&what, &rv, &rs)?;
                            if n.map(|n| n < bl).unwrap_or(false) {
                                short_seen = true;
                            }
                            b.check_read(&what, n)?;
                        }
                        ensure!(v.position() == s.position(), "{}: cursor position {:#x} (volatile) vs {:#x} (std)", what, v.position(), s.position());
                    }
                }};
            }
            if adapter == 1 {
                drive!(Cursor::new(&content[..]), Cursor::new(&content[..]));
            } else {
                drive!(Cursor::new(content.clone()), Cursor::new(content.clone()));
            }
        }
        3 => {
            // &mut [u8] as a writer
            let mut vstore = vec![FILLB; slen];
            let mut sstore = vec![FILLB; slen];
            note!(cx, "&mut [u8] writer of {} bytes", slen);
            {
                let mut v: &mut [u8] = &mut vstore[..];
                let mut s: &mut [u8] = &mut sstore[..];
                for c in 0..ncalls {
                    let bl = buflen(t);
                    let b = Bufs::new(bl, t, true);
                    let all = t.flag();
                    let what = format!("&mut [u8]({} left).{}(buf {})", v.len(), if all { "write_all" } else { "write" }, bl);
                    note!(cx, "{}", what);
                    classify(cx, bl, v.len(), c, short_seen);
                    if all {
                        let rv = v.write_all_volatile(&b.fr.slice());
                        let rs = s.write_all(&b.sbuf);
                        let ok = cmp_unit(&what, &rv, &rs)?;
                        b.fr.canaries_ok()?;
                        if !ok {
                            // a failed write_all has written what fits: nothing is left of the slice
                            ensure!(v.len() == s.len(), "{}: after the failed call {} bytes of the sink are left (volatile) vs {} (std)", what, v.len(), s.len());
                            cx.count("failed_exact_resync", 1);
                            break;
                        }
                    } else {
                        let rv = v.write_volatile(&b.fr.slice());
                        let rs = s.write(&b.sbuf);
                        let n = cmp_count(&what, &rv, &rs)?;
                        if n.map(|n| n < bl).unwrap_or(false) {
                            short_seen = true;
                        }
                        b.fr.canaries_ok()?;
                    }
                    ensure!(v.len() == s.len(), "{}: remaining sink length {} (volatile) vs {} (std)", what, v.len(), s.len());
                    ensure!(b.fr.contents() == b.sbuf, "{}: the source buffer was modified", what);
                }
            }
            ensure!(vstore == sstore, "&mut [u8] sink contents differ: volatile {} vs std {}", hexs(&vstore), hexs(&sstore));
        }
        4 => {
            // Vec<u8> as a writer
            let mut v: Vec<u8> = content.clone();
            let mut s: Vec<u8> = content.clone();
            if t.flag() {
                v.shrink_to_fit();
            }
            note!(cx, "Vec<u8> writer starting with {} bytes", slen);
            for c in 0..ncalls {
                let bl = buflen(t);
                let b = Bufs::new(bl, t, true);
                let all = t.flag();
                let what = format!("Vec({}).{}(buf {})", v.len(), if all { "write_all" } else { "write" }, bl);
                note!(cx, "{}", what);
                classify(cx, bl, usize::MAX, c, short_seen);
                if all {
                    let rv = v.write_all_volatile(&b.fr.slice());
                    let rs = s.write_all(&b.sbuf);
                    cmp_unit(&what, &rv, &rs)?;
                } else {
                    let rv = v.write_volatile(&b.fr.slice());
                    let rs = s.write(&b.sbuf);
                    cmp_count(&what, &rv, &rs)?;
                }
                b.fr.canaries_ok()?;
                ensure!(v == s, "{}: vector contents differ: volatile {} ({} bytes) vs std {} ({} bytes)", what, hexs(&v), v.len(), hexs(&s), s.len());
            }
        }
        _ => {
            // Cursor<&mut [u8]> as a writer
            let mut vstore = vec![FILLB; slen];
            let mut sstore = vec![FILLB; slen];
            let pos0 = match t.below(5) {
                0 => 0,
                1 => slen as u64,
                2 => slen as u64 + 1 + t.below(5),
                3 => u64::MAX - t.below(3),
                _ => t.below(slen as u64 + 1),
            };
            note!(cx, "Cursor<&mut [u8]> writer over {} bytes at position {:#x}", slen, pos0);
            if pos0 > slen as u64 {
                cx.nt("cursor_past_end");
            }
            {
                let mut v = Cursor::new(&mut vstore[..]);
                let mut s = Cursor::new(&mut sstore[..]);
                v.set_position(pos0);
                s.set_position(pos0);
                for c in 0..ncalls {
                    let bl = buflen(t);
                    let b = Bufs::new(bl, t, true);
                    let all = t.flag();
                    let what = format!("Cursor<&mut [u8]>(pos {:#x}/{}).{}(buf {})", v.position(), slen, if all { "write_all" } else { "write" }, bl);
                    note!(cx, "{}", what);
                    classify(cx, bl, slen.saturating_sub(v.position().min(slen as u64) as usize), c, short_seen);
                    if all {
                        let rv = v.write_all_volatile(&b.fr.slice());
                        let rs = s.write_all(&b.sbuf);
                        let ok = cmp_unit(&what, &rv, &rs)?;
                        b.fr.canaries_ok()?;
                        if !ok {
                            // write_all is a loop of writes: what a failed call leaves behind is
                            // determined (unlike read_exact): the cursor is at the end of the slice
                            ensure!(v.position() == s.position(), "{}: after the failed call the cursor is at {:#x} (volatile) vs {:#x} (std)", what, v.position(), s.position());
                            cx.count("failed_exact_resync", 1);
                            break;
                        }
                    } else {
                        let rv = v.write_volatile(&b.fr.slice());
                        let rs = s.write(&b.sbuf);
                        let n = cmp_count(&what, &rv, &rs)?;
                        if n.map(|n| n < bl).unwrap_or(false) {
                            short_seen = true;
                        }
                        b.fr.canaries_ok()?;
                    }
                    ensure!(v.position() == s.position(), "{}: cursor position {:#x} (volatile) vs {:#x} (std)", what, v.position(), s.position());
                }
            }
            ensure!(vstore == sstore, "Cursor<&mut [u8]> sink contents differ: volatile {} vs std {}", hexs(&vstore), hexs(&sstore));
        }
    }
    Ok(())
}

fn classify(cx: &mut Cx, bl: usize, remaining: usize, call: usize, short_seen: bool) {
    if (7..=9).contains(&bl) {
        cx.nt("buffer_len_7_to_9");
    }
    if remaining != usize::MAX && bl > remaining {
        cx.nt("buffer_longer_than_stream");
    }
    if remaining == 0 {
        cx.nt("at_end_of_stream");
    }
    if call >= 1 && short_seen {
        cx.nt("call_after_short_transfer");
    }
    if bl == 0 {
        cx.label("empty_buffer");
    }
}

// ---------------------------------------------------------------------------------------------
// descriptor-backed adapters

fn pipe_pair() -> Result<(OwnedFd, OwnedFd), String> {
    use std::os::fd::FromRawFd;
    let mut fds = [0i32; 2];
    // SAFETY: plain pipe(2).
    let r = unsafe { libc::pipe(fds.as_mut_ptr()) };
    ensure!(r == 0, "pipe() failed");
    // SAFETY: fresh descriptors.
    Ok(unsafe { (OwnedFd::from_raw_fd(fds[0]), OwnedFd::from_raw_fd(fds[1])) })
}

fn run_fd(t: &mut Tape, cx: &mut Cx) -> Result<(), String> {
    let adapter = t.below(11);
    let slen = t.idx(41);
    let content = t.bytes(slen);
    let ncalls = 1 + t.idx(5);
    match adapter {
        0 | 1 => {
            // regular file: reads at positions inside / at / past the end; writes anywhere
            use std::os::unix::fs::FileExt;
            let mut v = memfd(0);
            let mut s = memfd(0);
            v.write_all_at(&content, 0).map_err(|e| e.to_string())?;
            s.write_all_at(&content, 0).map_err(|e| e.to_string())?;
            let pos0 = match t.below(4) {
                0 => 0,
                1 => slen as u64,
                2 => slen as u64 + 1 + t.below(10),
                _ => t.below(slen as u64 + 1),
            };
            v.seek(SeekFrom::Start(pos0)).map_err(|e| e.to_string())?;
            s.seek(SeekFrom::Start(pos0)).map_err(|e| e.to_string())?;
            note!(cx, "File of {} bytes at position {}", slen, pos0);
            cx.label("file");
            if pos0 >= slen as u64 {
                cx.nt("at_end_of_stream");
            }
            for c in 0..ncalls {
                let bl = buflen(t);
                let reading = adapter == 0;
                let exact = t.flag();
                if reading {
                    let mut b = Bufs::new(bl, t, false);
                    let what = format!("File.{}(buf {})", if exact { "read_exact" } else { "read" }, bl);
                    note!(cx, "{}", what);
                    classify(cx, bl, usize::MAX, c, false);
                    if exact {
                        let rv = v.read_exact_volatile(&mut b.fr.slice());
                        let rs = s.read_exact(&mut b.sbuf);
                        if !cmp_unit(&what, &rv, &rs)? {
                            b.fr.canaries_ok()?;
                            break;
                        }
                        b.check_read(&what, Some(bl))?;
                    } else {
                        let rv = v.read_volatile(&mut b.fr.slice());
                        let rs = s.read(&mut b.sbuf);
                        let n = cmp_count(&what, &rv, &rs)?;
                        b.check_read(&what, n)?;
                    }
                } else {
                    let b = Bufs::new(bl, t, true);
                    let what = format!("File.{}(buf {})", if exact { "write_all" } else { "write" }, bl);
                    note!(cx, "{}", what);
                    classify(cx, bl, usize::MAX, c, false);
                    if exact {
                        let rv = v.write_all_volatile(&b.fr.slice());
                        let rs = s.write_all(&b.sbuf);
                        cmp_unit(&what, &rv, &rs)?;
                    } else {
                        let rv = v.write_volatile(&b.fr.slice());
                        let rs = s.write(&b.sbuf);
                        cmp_count(&what, &rv, &rs)?;
                    }
                    b.fr.canaries_ok()?;
                }
                let pv = v.seek(SeekFrom::Current(0)).map_err(|e| e.to_string())?;
                let ps = s.seek(SeekFrom::Current(0)).map_err(|e| e.to_string())?;
                ensure!(pv == ps, "file position {} (volatile) vs {} (std)", pv, ps);
            }
            let cv = pread_all(&v, 0, 4096);
            let cs = pread_all(&s, 0, 4096);
            ensure!(cv == cs, "file contents differ: volatile {} ({} bytes) vs std {} ({} bytes)", hexs(&cv), cv.len(), hexs(&cs), cs.len());
        }
        2 | 3 => {
            // UnixStream pair: data queued, then peer closed
            use std::os::unix::net::UnixStream;
            let (mut va, mut vb) = UnixStream::pair().map_err(|e| e.to_string())?;
            let (mut sa, mut sb) = UnixStream::pair().map_err(|e| e.to_string())?;
            cx.label("unix_stream");
            note!(cx, "UnixStream with {} bytes queued", slen);
            if adapter == 2 {
                va.write_all(&content).map_err(|e| e.to_string())?;
                sa.write_all(&content).map_err(|e| e.to_string())?;
                drop(va);
                drop(sa);
                let mut left = slen;
                for c in 0..ncalls {
                    let bl = buflen(t);
                    let mut b = Bufs::new(bl, t, false);
                    let what = format!("UnixStream({} queued).read(buf {})", left, bl);
                    note!(cx, "{}", what);
                    classify(cx, bl, left, c, false);
                    let rv = vb.read_volatile(&mut b.fr.slice());
                    let rs = sb.read(&mut b.sbuf);
                    let n = cmp_count(&what, &rv, &rs)?;
                    b.check_read(&what, n)?;
                    left -= n.unwrap_or(0);
                }
            } else {
                let mut total = 0;
                for c in 0..ncalls {
                    let bl = buflen(t);
                    let b = Bufs::new(bl, t, true);
                    let what = format!("UnixStream.write(buf {})", bl);
                    note!(cx, "{}", what);
                    classify(cx, bl, usize::MAX, c, false);
                    let rv = va.write_volatile(&b.fr.slice());
                    let rs = sa.write(&b.sbuf);
                    let n = cmp_count(&what, &rv, &rs)?;
                    total += n.unwrap_or(0);
                    b.fr.canaries_ok()?;
                }
                drop(va);
                drop(sa);
                let (mut gv, mut gs) = (Vec::new(), Vec::new());
                vb.read_to_end(&mut gv).map_err(|e| e.to_string())?;
                sb.read_to_end(&mut gs).map_err(|e| e.to_string())?;
                ensure!(gv == gs && gv.len() == total, "bytes received by the peer differ: volatile {} vs std {}", hexs(&gv), hexs(&gs));
            }
        }
        4 | 5 => {
            // pipe ends as OwnedFd / BorrowedFd; std twin through File
            let (vr, vw) = pipe_pair()?;
            let (sr, sw) = pipe_pair()?;
            let mut sw_f = std::fs::File::from(sw);
            let mut sr_f = std::fs::File::from(sr);
            cx.label("pipe_fd");
            note!(cx, "pipe with {} bytes queued ({})", slen, if adapter == 4 { "OwnedFd" } else { "BorrowedFd" });
            {
                let mut vw_f = std::fs::File::from(vw.try_clone().map_err(|e| e.to_string())?);
                vw_f.write_all(&content).map_err(|e| e.to_string())?;
            }
            sw_f.write_all(&content).map_err(|e| e.to_string())?;
            // write a little more through the volatile adapter of the write end
            let bl = buflen(t);
            let b = Bufs::new(bl, t, true);
            let mut vw = vw;
            let rv = if adapter == 4 { vw.write_volatile(&b.fr.slice()) } else { vw.as_fd().write_volatile(&b.fr.slice()) };
            let rs = sw_f.write(&b.sbuf);
            cmp_count("pipe.write", &rv, &rs)?;
            drop(vw);
            drop(sw_f);
            let mut vr = vr;
            for c in 0..ncalls + 1 {
                let bl = buflen(t);
                let mut b = Bufs::new(bl, t, false);
                let what = format!("pipe.read(buf {})", bl);
                note!(cx, "{}", what);
                classify(cx, bl, usize::MAX, c, false);
                let rv = if adapter == 4 { vr.read_volatile(&mut b.fr.slice()) } else { vr.as_fd().read_volatile(&mut b.fr.slice()) };
                let rs = sr_f.read(&mut b.sbuf);
                let n = cmp_count(&what, &rv, &rs)?;
                b.check_read(&what, n)?;
            }
        }
        10 => {
            // short writes: a non-blocking pipe accepts only what fits into its buffer
            use std::os::fd::AsRawFd;
            let (_vr, mut vw) = pipe_pair()?;
            let (_sr, sw) = pipe_pair()?;
            for fd in [vw.as_raw_fd(), sw.as_raw_fd()] {
                // SAFETY: plain fcntl on our own descriptors.
                unsafe {
                    let fl = libc::fcntl(fd, libc::F_GETFL);
                    libc::fcntl(fd, libc::F_SETFL, fl | libc::O_NONBLOCK);
                }
            }
            let mut sw_f = std::fs::File::from(sw);
            cx.label("pipe_short_write");
            let bl = 70_000 + t.idx(100_000);
            let b = Bufs::new(bl, t, true);
            note!(cx, "non-blocking pipe.write(buf {})", bl);
            let rv = vw.write_volatile(&b.fr.slice());
            let rs = sw_f.write(&b.sbuf);
            let n = cmp_count("non-blocking pipe.write", &rv, &rs)?;
            if n.map(|n| n < bl).unwrap_or(false) {
                cx.nt("short_descriptor_write");
            }
            // the pipe is (nearly) full now: the exact form must fail the same way on both sides
            let rv = vw.write_all_volatile(&b.fr.slice());
            let rs = sw_f.write_all(&b.sbuf);
            cmp_unit("non-blocking pipe.write_all", &rv, &rs)?;
            b.fr.canaries_ok()?;
        }
        9 => {
            // Stdout: descriptor 1 is redirected to a memfd for the duration of the call
            use std::os::fd::AsRawFd;
            cx.label("stdout");
            let bl = buflen(t);
            let b = Bufs::new(bl, t, true);
            let f = memfd(0);
            let mut twin = memfd(0);
            note!(cx, "Stdout.write(buf {})", bl);
            // SAFETY: plain descriptor juggling; fd 1 is restored before anything is printed.
            let (rv, rs) = unsafe {
                let saved = libc::dup(1);
                ensure!(saved >= 0, "dup(1) failed");
                libc::dup2(f.as_raw_fd(), 1);
                let mut out = std::io::stdout();
                let rv = out.write_volatile(&b.fr.slice());
                libc::dup2(saved, 1);
                libc::close(saved);
                (rv, twin.write(&b.sbuf))
            };
            cmp_count("Stdout.write", &rv, &rs)?;
            b.fr.canaries_ok()?;
            let got = pread_all(&f, 0, 64);
            let want = pread_all(&twin, 0, 64);
            ensure!(got == want, "bytes written to stdout {} differ from the twin's {}", hexs(&got), hexs(&want));
            cx.nt("stdout_adapter");
        }
        7 | 8 => {
            // a descriptor that delivers its data in several short reads (datagrams of 1..9
            // bytes, non-blocking): one exact read is satisfied by 2 or more non-empty reads
            use std::os::unix::net::UnixDatagram;
            let mk = || -> Result<(UnixDatagram, OwnedFd), String> {
                let (a, b) = UnixDatagram::pair().map_err(|e| e.to_string())?;
                b.set_nonblocking(true).map_err(|e| e.to_string())?;
                Ok((a, OwnedFd::from(b)))
            };
            let (vs_tx, mut vfd) = mk()?;
            let (ss_tx, sfd) = mk()?;
            let mut sfile = std::fs::File::from(sfd);
            cx.label("datagram_fd");
            let n = 1 + t.idx(5);
            let mut sizes = Vec::new();
            let mut off = 0usize;
            let data = t.bytes(64);
            for _ in 0..n {
                let k = 1 + t.idx(9);
                vs_tx.send(&data[off..off + k]).map_err(|e| e.to_string())?;
                ss_tx.send(&data[off..off + k]).map_err(|e| e.to_string())?;
                sizes.push(k);
                off += k;
            }
            note!(cx, "datagram fd with chunks {:?}", sizes);
            for c in 0..ncalls {
                // buffer lengths that are sums of the first chunks (exact fills from several reads)
                let j = 1 + t.idx(sizes.len());
                let bl = if t.flag() { sizes[..j].iter().sum::<usize>() } else { buflen(t) };
                let mut b = Bufs::new(bl, t, false);
                let exact = adapter == 8 || t.flag();
                let what = format!("datagram fd.{}(buf {})", if exact { "read_exact" } else { "read" }, bl);
                note!(cx, "{}", what);
                classify(cx, bl, usize::MAX, c, false);
                if exact {
                    let rv = vfd.read_exact_volatile(&mut b.fr.slice());
                    let rs = sfile.read_exact(&mut b.sbuf);
                    let ok = cmp_unit(&what, &rv, &rs)?;
                    if ok {
                        b.check_read(&what, Some(bl))?;
                        if j >= 2 {
                            cx.nt("exact_read_from_several_short_reads");
                        }
                    } else {
                        b.fr.canaries_ok()?;
                        break;
                    }
                } else {
                    let rv = vfd.read_volatile(&mut b.fr.slice());
                    let rs = sfile.read(&mut b.sbuf);
                    let nn = cmp_count(&what, &rv, &rs)?;
                    b.check_read(&what, nn)?;
                    if nn.is_none() {
                        break;
                    }
                }
            }
        }
        _ => {
            // loopback TcpStream
            use std::net::{TcpListener, TcpStream};
            let mk = || -> Result<(TcpStream, TcpStream), String> {
                let l = TcpListener::bind("127.0.0.1:0").map_err(|e| e.to_string())?;
                let a = TcpStream::connect(l.local_addr().map_err(|e| e.to_string())?).map_err(|e| e.to_string())?;
                let (b, _) = l.accept().map_err(|e| e.to_string())?;
                Ok((a, b))
            };
            let (pairs_v, pairs_s) = match (mk(), mk()) {
                (Ok(a), Ok(b)) => (a, b),
                _ => {
                    cx.count("skipped_tcp_unavailable", 1);
                    return Ok(());
                }
            };
            let (mut va, mut vb) = pairs_v;
            let (mut sa, mut sb) = pairs_s;
            cx.label("tcp_stream");
            note!(cx, "TcpStream with {} bytes", slen);
            let bl = buflen(t);
            let b = Bufs::new(bl, t, true);
            let rv = va.write_volatile(&b.fr.slice());
            let rs = sa.write(&b.sbuf);
            cmp_count("TcpStream.write", &rv, &rs)?;
            va.write_all(&content).map_err(|e| e.to_string())?;
            sa.write_all(&content).map_err(|e| e.to_string())?;
            drop(va);
            drop(sa);
            // read everything: each side in a loop until EOF, compare the concatenation
            // (segment boundaries of TCP are not deterministic, so only totals are compared)
            let (mut gv, mut gs) = (Vec::new(), Vec::new());
            loop {
                let mut bb = Bufs::new(1 + buflen(t), t, false);
                match vb.read_volatile(&mut bb.fr.slice()) {
                    Ok(0) => break,
                    Ok(n) => {
                        let c = bb.fr.contents();
                        ensure!(c[n..].iter().all(|x| *x == FILLB), "TcpStream.read touched the buffer beyond what it reported");
                        bb.fr.canaries_ok()?;
                        gv.extend_from_slice(&c[..n]);
                    }
                    Err(e) => return Err(format!("TcpStream.read_volatile failed: {:?}", e)),
                }
            }
            sb.read_to_end(&mut gs).map_err(|e| e.to_string())?;
            ensure!(gv == gs, "bytes received over TCP differ: volatile {} vs std {}", hexs(&gv), hexs(&gs));
            cx.nt("socket_roundtrip");
        }
    }
    Ok(())
}

/// xen build: the volatile buffer is a window of an emulated region (on-demand grant regions have
/// no host pointer: the adapter has to keep the temporary mapping alive across the system call /
/// the copy); the std twin uses an ordinary buffer; the region is then read back through the
/// device file.
#[cfg(feature = "xen")]
fn run_xen_buffers(t: &mut Tape, cx: &mut Cx) -> Result<(), String> {
    use crate::xen_emul::{build as xbuild, gen_kind, reset, Kind as XKind};
    use std::os::unix::fs::FileExt;
    use vm_memory::GuestMemoryRegion;
    reset();
    let kind = gen_kind(t);
    let size = t.pick(&[4096usize, 4096 + 40, 100, 2 * 4096]);
    let xr = xbuild::<()>(kind, 0x1000 * (1 + t.below(3)), size)?;
    if kind == XKind::GrantOnDemand {
        cx.nt("xen_on_demand_buffer");
    }
    let adapter = t.below(6);
    let slen = t.idx(41);
    let content = t.bytes(slen);
    let ncalls = 1 + t.idx(4);
    note!(cx, "{:?} region of {} bytes; adapter {} with {} bytes", kind, size, ["File read", "File write", "UnixStream read", "UnixStream write", "&[u8] read", "Vec write"][adapter as usize], slen);
    let mut vf = memfd(0);
    let mut sf = memfd(0);
    let (mut va, mut vb) = std::os::unix::net::UnixStream::pair().map_err(|e| e.to_string())?;
    let (mut sa, mut sb) = std::os::unix::net::UnixStream::pair().map_err(|e| e.to_string())?;
    let mut vsrc: &[u8] = &content;
    let mut ssrc: &[u8] = &content;
    let mut vvec: Vec<u8> = Vec::new();
    let mut svec: Vec<u8> = Vec::new();
    match adapter {
        0 => {
            vf.write_all_at(&content, 0).map_err(|e| e.to_string())?;
            sf.write_all_at(&content, 0).map_err(|e| e.to_string())?;
        }
        2 => {
            vb.write_all(&content).map_err(|e| e.to_string())?;
            sb.write_all(&content).map_err(|e| e.to_string())?;
            vb.shutdown(std::net::Shutdown::Write).map_err(|e| e.to_string())?;
            sb.shutdown(std::net::Shutdown::Write).map_err(|e| e.to_string())?;
        }
        _ => {}
    }
    for c in 0..ncalls {
        let bl = buflen(t);
        // window: anywhere, or straddling the page boundary of a multi-page region
        let off = if size > 4096 && t.flag() { 4096 - t.idx(bl + 1).min(4096) } else { t.idx(size - bl.min(size) + 1) };
        let bl = bl.min(size - off);
        let exact = t.flag();
        let reading = adapter % 2 == 0;
        let seed = t.word() as u8;
        let init: Vec<u8> = (0..size).map(|i| if reading { FILLB } else { seed.wrapping_add((i as u8).wrapping_mul(29)) }).collect();
        xr.raw_write(&init);
        let mut sbuf = init[off..off + bl].to_vec();
        let win = xr.region.get_slice(vm_memory::MemoryRegionAddress(off as u64), bl).map_err(|e| format!("get_slice: {:?}", e))?;
        let what = format!("call {}: {}{} with a buffer of {} bytes at region offset {:#x}", c, if reading { "read" } else { "write" }, if exact { "_exact/_all" } else { "" }, bl, off);
        note!(cx, "{}", what);
        classify(cx, bl, usize::MAX, c, false);
        let cont = if reading {
            let mut w = win;
            if exact {
                let (rv, rs) = match adapter {
                    0 => (vf.read_exact_volatile(&mut w), sf.read_exact(&mut sbuf)),
                    2 => (va.read_exact_volatile(&mut w), sa.read_exact(&mut sbuf)),
                    _ => (vsrc.read_exact_volatile(&mut w), ssrc.read_exact(&mut sbuf)),
                };
                cmp_unit(&what, &rv, &rs)?
            } else {
                let (rv, rs) = match adapter {
                    0 => (vf.read_volatile(&mut w), sf.read(&mut sbuf)),
                    2 => (va.read_volatile(&mut w), sa.read(&mut sbuf)),
                    _ => (vsrc.read_volatile(&mut w), ssrc.read(&mut sbuf)),
                };
                cmp_count(&what, &rv, &rs)?.is_some()
            }
        } else if exact {
            let (rv, rs) = match adapter {
                1 => (vf.write_all_volatile(&win), sf.write_all(&sbuf)),
                3 => (va.write_all_volatile(&win), sa.write_all(&sbuf)),
                _ => (vvec.write_all_volatile(&win), svec.write_all(&sbuf)),
            };
            cmp_unit(&what, &rv, &rs)?
        } else {
            let (rv, rs) = match adapter {
                1 => (vf.write_volatile(&win), sf.write(&sbuf)),
                3 => (va.write_volatile(&win), sa.write(&sbuf)),
                _ => (vvec.write_volatile(&win), svec.write(&sbuf)),
            };
            cmp_count(&what, &rv, &rs)?.is_some()
        };
        if !cont {
            // after a failed call buffer contents and stream state are unspecified by std
            cx.count("sequence_ended_by_failed_call", 1);
            return Ok(());
        }
        // the region as the device sees it: the window holds what std put into its buffer,
        // everything else is untouched
        let now = xr.raw_read();
        let mut want = init.clone();
        want[off..off + bl].copy_from_slice(&sbuf);
        ensure!(now == want, "{}: region contents differ from the std twin (first difference at region offset {:#x})", what, now.iter().zip(&want).position(|(a, b)| a != b).unwrap_or(0));
        ensure!(crate::xen_emul::live().len() <= 1, "{}: temporary windows remain mapped: {:x?}", what, crate::xen_emul::live());
    }
    // what arrived at the sinks
    match adapter {
        1 => ensure!(pread_all(&vf, 0, 4096) == pread_all(&sf, 0, 4096), "file contents differ between the volatile adapter and std"),
        3 => {
            drop(va);
            drop(sa);
            let (mut gv, mut gs) = (Vec::new(), Vec::new());
            vb.read_to_end(&mut gv).map_err(|e| e.to_string())?;
            sb.read_to_end(&mut gs).map_err(|e| e.to_string())?;
            ensure!(gv == gs, "bytes received over the socket differ: volatile {} vs std {}", hexs(&gv), hexs(&gs));
        }
        5 => ensure!(vvec == svec, "vector contents differ: volatile {} vs std {}", hexs(&vvec), hexs(&svec)),
        0 => ensure!(vf.stream_position().map_err(|e| e.to_string())? == sf.stream_position().map_err(|e| e.to_string())?, "file positions differ"),
        4 => ensure!(vsrc.len() == ssrc.len(), "remaining source lengths differ: volatile {} vs std {}", vsrc.len(), ssrc.len()),
        _ => {}
    }
    Ok(())
}

#[cfg(not(feature = "xen"))]
fn run_xen_buffers(_t: &mut Tape, _cx: &mut Cx) -> Result<(), String> {
    Ok(())
}

/// One very large buffer (hundreds of MiB of untouched anonymous memory) written to /dev/null:
/// the count is what std's write returns for an ordinary buffer of the same length.
fn run_huge_buffer(t: &mut Tape, cx: &mut Cx) -> Result<(), String> {
    let len: usize = t.pick(&[192usize << 20, (128 << 20) + 4096, 1 << 30]);
    let all = t.flag();
    note!(cx, "/dev/null.{}(buffer of {} MiB)", if all { "write_all" } else { "write" }, len >> 20);
    cx.nt("huge_buffer");
    // SAFETY: anonymous, never touched (the null device does not read its input), released below.
    let p = unsafe { libc::syscall(libc::SYS_mmap, 0usize, len, libc::PROT_READ | libc::PROT_WRITE, libc::MAP_PRIVATE | libc::MAP_ANONYMOUS | libc::MAP_NORESERVE, -1isize, 0usize) } as usize;
    ensure!(p != usize::MAX, "HARNESS-PANIC: mmap of {} bytes failed", len);
    let res = (|| -> Result<(), String> {
        let mut v = std::fs::OpenOptions::new().write(true).open("/dev/null").map_err(|e| e.to_string())?;
        let mut s = std::fs::OpenOptions::new().write(true).open("/dev/null").map_err(|e| e.to_string())?;
        // SAFETY: the mapping is live until the end of this function.
        let vs = unsafe { VolatileSlice::new(p as *mut u8, len) };
        // SAFETY: as above; zero pages.
        let plain = unsafe { std::slice::from_raw_parts(p as *const u8, len) };
        if all {
            let rv = v.write_all_volatile(&vs);
            let rs = s.write_all(plain);
            cmp_unit("huge write_all", &rv, &rs)?;
        } else {
            let rv = v.write_volatile(&vs);
            let rs = s.write(plain);
            cmp_count("huge write", &rv, &rs)?;
        }
        Ok(())
    })();
    // SAFETY: releasing the harness mapping.
    unsafe { libc::syscall(libc::SYS_munmap, p, len) };
    res
}

fn gen_huge(_t: Tier) -> Box<dyn Iterator<Item = Vec<u64>>> {
    Box::new((0..3u64).flat_map(|l| (0..2u64).map(move |a| vec![l, a])))
}

pub fn property() -> Property {
    Property {
        id: "C13",
        rule: "a case = one adapter (&[u8], Cursor<&[u8]>, Cursor<Vec<u8>>, &mut [u8], Vec<u8>, Cursor<&mut [u8]>; File, UnixStream, pipe ends as OwnedFd/BorrowedFd, loopback TcpStream) with stream content of 0..40 bytes, cursor positions incl. at/after the end and near u64::MAX, and a sequence of 1..8 calls mixing the plain and the exact variants with buffer lengths 0..24 dense around 7/8/9 at any alignment inside canaries; the identical sequence runs on the std::io counterpart with an ordinary buffer; xen build: File / UnixStream / &[u8] / Vec adapters with the volatile buffer inside an emulated region (incl. grant regions mapped on demand, windows straddling a page boundary), the region read back through the device file; compared after every call: result (count or error kind), bytes landed, untouched tail, canaries, stream state (remaining length / position / sink contents / file position); non-trivial = a call after a short transfer, a stream at its end, a buffer longer than what is left, a cursor past the end, a buffer length in 7..=9, a socket round trip; distinct = decoded (adapter, content, sequence)",
        assumptions: &["after a failed read_exact, position and buffer content are unspecified by std and are not compared (sequence ends, counted); after a failed write_all (a loop of writes) sink contents and cursor position are compared", "TCP segment boundaries are not deterministic: totals are compared", "real EINTR is not injected (C14 scripts it)"],
        subchecks: vec![
            SubCheck { name: "memory", builds: &[Build::Std], kind: Kind::Random { quick: 60_000, thorough: 3_000_000, max_words: 64 }, run: run_memory },
            SubCheck { name: "fd", builds: &[Build::Std], kind: Kind::Random { quick: 4_000, thorough: 120_000, max_words: 64 }, run: run_fd },
            SubCheck { name: "huge_buffer", builds: &[Build::Std], kind: Kind::Exhaustive { gen: gen_huge }, run: run_huge_buffer },
            SubCheck { name: "xen_buffers", builds: &[Build::Xen], kind: Kind::Random { quick: 4_000, thorough: 120_000, max_words: 64 }, run: run_xen_buffers },
        ],
    }
}
