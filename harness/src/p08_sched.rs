//! C08 – a dirty mark is never lost when marking races with harvesting the bitmap.
//!
//! The *schedule is a generated input*: hook H2 makes every atomic operation of `AtomicBitmap`
//! call a yield point first; persistent worker threads run the generated per-thread programs and
//! a controller lets exactly one of them advance to its next atomic operation, chosen by the
//! tape (random tier) or by a depth-first enumeration of all interleavings (small scopes).
//! Oracle: invariant over the history - no re-implementation of the bitmap.

use crate::engine::*;
use crate::tape::Tape;
use crate::{ensure, note};
use std::cell::Cell;
use std::num::NonZeroUsize;
use std::sync::atomic::{AtomicUsize, Ordering};
use std::sync::{Arc, Mutex, OnceLock};
use vm_memory::bitmap::AtomicBitmap;

#[derive(Clone, Debug, PartialEq)]
pub enum Op {
    SetRange(usize, usize),
    /// the same through `Bitmap::mark_dirty`
    MarkDirty(usize, usize),
    /// `slice_at(base).mark_dirty(offset, len)`
    MarkSlice(usize, usize, usize),
    SetBit(usize),
    ResetRange(usize, usize),
    ResetBit(usize),
    Harvest,
    Clone,
    IsSet(usize),
}

#[derive(Clone, Debug, Default)]
pub struct ThreadResult {
    harvested: Vec<Vec<u64>>,
    clones: Vec<Vec<usize>>,
}

const NONE: usize = usize::MAX;
const MAXT: usize = 3;

// worker states
const IDLE: usize = 0;
const PARKED: usize = 1;
const RUNNING: usize = 2;
const FINISHED: usize = 3;

struct Shared {
    turn: AtomicUsize,
    state: [AtomicUsize; MAXT],
    job: [Mutex<Option<(Arc<AtomicBitmap>, Vec<Op>)>>; MAXT],
    result: [Mutex<Option<ThreadResult>>; MAXT],
    go: [AtomicUsize; MAXT],
}

thread_local! {
    static WORKER: Cell<usize> = const { Cell::new(NONE) };
}

static SHARED: OnceLock<&'static Shared> = OnceLock::new();

fn shared() -> &'static Shared {
    SHARED.get_or_init(|| {
        let s: &'static Shared = Box::leak(Box::new(Shared {
            turn: AtomicUsize::new(NONE),
            state: [AtomicUsize::new(IDLE), AtomicUsize::new(IDLE), AtomicUsize::new(IDLE)],
            job: [Mutex::new(None), Mutex::new(None), Mutex::new(None)],
            result: [Mutex::new(None), Mutex::new(None), Mutex::new(None)],
            go: [AtomicUsize::new(0), AtomicUsize::new(0), AtomicUsize::new(0)],
        }));
        vm_memory::verif_hooks::set_yield_hook(Some(yield_point));
        for i in 0..MAXT {
            std::thread::Builder::new().name(format!("c08-worker-{}", i)).spawn(move || worker(i, s)).expect("spawn worker");
        }
        s
    })
}

fn spin_until(cond: impl Fn() -> bool) {
    let mut n = 0u32;
    while !cond() {
        n += 1;
        if n < 2000 {
            std::hint::spin_loop();
        } else {
            std::thread::yield_now();
        }
    }
}

/// Called by the atomic shim before every atomic operation.
fn yield_point() {
    let me = WORKER.with(|w| w.get());
    if me == NONE {
        return;
    }
    let s = shared();
    // hand the baton back and wait for the next turn
    // release the baton (only if this thread holds it: at start-up it does not) *before*
    // publishing PARKED, so that nothing is written after the controller may grant the next turn
    let _ = s.turn.compare_exchange(me, NONE, Ordering::SeqCst, Ordering::SeqCst);
    s.state[me].store(PARKED, Ordering::SeqCst);
    spin_until(|| s.turn.load(Ordering::SeqCst) == me);
    s.state[me].store(RUNNING, Ordering::SeqCst);
}

fn worker(i: usize, s: &'static Shared) {
    WORKER.with(|w| w.set(i));
    let mut seen = 0usize;
    loop {
        spin_until(|| s.go[i].load(Ordering::SeqCst) != seen);
        seen = s.go[i].load(Ordering::SeqCst);
        let (bm, ops) = s.job[i].lock().unwrap().take().expect("job");
        let mut res = ThreadResult::default();
        for op in &ops {
            match op {
                Op::SetRange(a, l) => bm.set_addr_range(*a, *l),
                Op::MarkDirty(a, l) => vm_memory::bitmap::Bitmap::mark_dirty(bm.as_ref(), *a, *l),
                Op::MarkSlice(base, a, l) => {
                    use vm_memory::bitmap::Bitmap;
                    bm.as_ref().slice_at(*base).mark_dirty(*a, *l)
                }
                Op::SetBit(b) => bm.set_bit(*b),
                Op::ResetRange(a, l) => bm.reset_addr_range(*a, *l),
                Op::ResetBit(b) => bm.reset_bit(*b),
                Op::Harvest => res.harvested.push(bm.get_and_reset()),
                Op::Clone => {
                    let c = bm.as_ref().clone();
                    // reading the private clone is not scheduled
                    WORKER.with(|w| w.set(NONE));
                    res.clones.push((0..c.len()).filter(|p| c.is_bit_set(*p)).collect());
                    WORKER.with(|w| w.set(i));
                }
                Op::IsSet(b) => {
                    let _ = bm.is_bit_set(*b);
                }
            }
        }
        drop(bm);
        *s.result[i].lock().unwrap() = Some(res);
        let _ = s.turn.compare_exchange(i, NONE, Ordering::SeqCst, Ordering::SeqCst);
        s.state[i].store(FINISHED, Ordering::SeqCst);
    }
}

pub struct Program {
    pub pages: usize,
    /// bytes per page; range operations take byte addresses
    pub page_size: usize,
    /// byte size of the bitmap (the last page may be partial)
    pub byte_size: usize,
    /// Some(n): the bitmap is created for n bytes and enlarged to byte_size before it is shared
    pub grown_from: Option<usize>,
    pub premarked: Vec<usize>,
    pub threads: Vec<Vec<Op>>,
}

pub struct Execution {
    pub results: Vec<ThreadResult>,
    pub final_set: Vec<usize>,
    /// number of runnable threads at each decision point and the choice taken
    pub decisions: Vec<(usize, usize)>,
    pub switches: usize,
}

/// Run `prog` under the schedule produced by `choose(step, runnable_count) -> index`.
pub fn execute(prog: &Program, mut choose: impl FnMut(usize, usize) -> usize) -> Execution {
    let s = shared();
    let n = prog.threads.len();
    let bm = Arc::new(match prog.grown_from {
        Some(n) => {
            let mut b = AtomicBitmap::new(n, NonZeroUsize::new(prog.page_size).unwrap());
            b.enlarge(prog.byte_size - n);
            b
        }
        None => AtomicBitmap::new(prog.byte_size, NonZeroUsize::new(prog.page_size).unwrap()),
    });
    for p in &prog.premarked {
        bm.set_bit(*p);
    }
    for i in 0..n {
        *s.job[i].lock().unwrap() = Some((bm.clone(), prog.threads[i].clone()));
        s.state[i].store(RUNNING, Ordering::SeqCst);
    }
    s.turn.store(NONE, Ordering::SeqCst);
    for i in 0..n {
        s.go[i].fetch_add(1, Ordering::SeqCst);
    }
    // every worker runs up to its first yield point (or finishes if it has no atomic step)
    for i in 0..n {
        spin_until(|| matches!(s.state[i].load(Ordering::SeqCst), PARKED | FINISHED));
    }
    let mut decisions = Vec::new();
    let mut last = NONE;
    let mut switches = 0;
    let mut step = 0;
    loop {
        let runnable: Vec<usize> = (0..n).filter(|i| s.state[*i].load(Ordering::SeqCst) == PARKED).collect();
        if runnable.is_empty() {
            break;
        }
        let c = choose(step, runnable.len()).min(runnable.len() - 1);
        decisions.push((runnable.len(), c));
        let who = runnable[c];
        if last != NONE && last != who {
            switches += 1;
        }
        last = who;
        s.state[who].store(RUNNING, Ordering::SeqCst);
        s.turn.store(who, Ordering::SeqCst);
        // wait until it parks at its next atomic operation or finishes
        spin_until(|| s.turn.load(Ordering::SeqCst) == NONE && matches!(s.state[who].load(Ordering::SeqCst), PARKED | FINISHED));
        step += 1;
    }
    let results: Vec<ThreadResult> = (0..n).map(|i| s.result[i].lock().unwrap().take().unwrap_or_default()).collect();
    for i in 0..n {
        s.state[i].store(IDLE, Ordering::SeqCst);
    }
    let final_set = (0..bm.len() + 70).filter(|p| bm.is_bit_set(*p)).collect();
    Execution { results, final_set, decisions, switches }
}

fn pages_of(op: &Op, pages: usize, ps: usize) -> (Vec<usize>, Vec<usize>) {
    // (marked, reset) page sets of one operation
    let range = |a: usize, l: usize| -> Vec<usize> {
        if l == 0 { vec![] } else { (a / ps..=a.saturating_add(l - 1) / ps).take_while(|p| *p < pages).collect() }
    };
    match op {
        Op::SetRange(a, l) | Op::MarkDirty(a, l) => (range(*a, *l), vec![]),
        Op::MarkSlice(b, a, l) => (range(*b + *a, *l), vec![]),
        Op::SetBit(b) => (if *b < pages { vec![*b] } else { vec![] }, vec![]),
        Op::ResetRange(a, l) => (vec![], range(*a, *l)),
        Op::ResetBit(b) => (vec![], if *b < pages { vec![*b] } else { vec![] }),
        _ => (vec![], vec![]),
    }
}

pub fn judge(prog: &Program, ex: &Execution) -> Result<(), String> {
    let mut marked: Vec<bool> = vec![false; prog.pages + 70];
    let mut reset: Vec<bool> = vec![false; prog.pages + 70];
    for p in &prog.premarked {
        marked[*p] = true;
    }
    for th in &prog.threads {
        for op in th {
            let (m, r) = pages_of(op, prog.pages, prog.page_size);
            for p in m {
                marked[p] = true;
            }
            for p in r {
                reset[p] = true;
            }
        }
    }
    let mut seen: Vec<bool> = vec![false; prog.pages + 70];
    let describe = || format!("page size {} program {:?} premarked {:?} schedule {:?}", prog.page_size, prog.threads, prog.premarked, ex.decisions.iter().map(|d| d.1).collect::<Vec<_>>());
    for (ti, r) in ex.results.iter().enumerate() {
        for h in &r.harvested {
            ensure!(h.len() == prog.pages.div_ceil(64), "get_and_reset returned {} words for {} pages", h.len(), prog.pages);
            for (wi, w) in h.iter().enumerate() {
                for b in 0..64 {
                    if (w >> b) & 1 == 1 {
                        let p = wi * 64 + b;
                        ensure!(p < prog.pages, "thread {} harvested page {} which is beyond the page count {} ({})", ti, p, prog.pages, describe());
                        ensure!(marked[p], "thread {} harvested page {} which nobody marked ({})", ti, p, describe());
                        seen[p] = true;
                    }
                }
            }
        }
        for c in &r.clones {
            for p in c {
                ensure!(*p < prog.pages && marked[*p], "a clone contains page {} which nobody marked ({})", p, describe());
            }
        }
    }
    for p in &ex.final_set {
        ensure!(*p < prog.pages && marked[*p], "page {} is set in the final bitmap but nobody marked it ({})", p, describe());
        seen[*p] = true;
    }
    for p in 0..prog.pages {
        if marked[p] && !reset[p] && !seen[p] {
            return Err(format!("the mark of page {} was lost: it is neither in any fetch-and-clear result nor still set, and no thread reset it ({})", p, describe()));
        }
    }
    Ok(())
}

fn gen_op(t: &mut Tape, pages: usize, focus: usize, ps: usize, byte_size: usize) -> Op {
    // pages around `focus` so that operations share a word or span two
    let near = |t: &mut Tape| (focus + t.idx(6)).min(pages + 1);
    // a byte address inside a page near the focus / a byte length of a few pages
    let addr = |t: &mut Tape, page: usize| page * ps + t.idx(ps);
    match t.below(10) {
        0 | 1 => Op::SetBit(near(t)),
        2 => {
            let p = near(t);
            let (a, l) = (addr(t, p), 1 + t.idx(4 * ps));
            match t.below(3) {
                0 => Op::SetRange(a, l),
                // the way guest-memory writes mark: through the Bitmap trait / a slice of the bitmap
                1 => Op::MarkDirty(a, l),
                _ => {
                    let b = t.idx(a + 1);
                    Op::MarkSlice(b, a - b, l)
                }
            }
        }
        3 => {
            let p = near(t).saturating_sub(t.idx(4));
            Op::SetRange(addr(t, p), 1 + t.idx(9 * ps))
        }
        4 => Op::ResetBit(near(t)),
        5 => {
            let p = near(t);
            if t.chance(1, 4) {
                // a reset that runs to (or past) the end of the bitmap from the middle
                Op::ResetRange(addr(t, p), byte_size + t.idx(3))
            } else {
                Op::ResetRange(addr(t, p), 1 + t.idx(3 * ps))
            }
        }
        6 | 7 => Op::Harvest,
        8 => Op::Clone,
        _ => Op::IsSet(near(t)),
    }
}

fn gen_program(t: &mut Tape) -> Program {
    let pages = 70 + t.idx(71);
    let focus = t.pick(&[0usize, 60, 62, 63, 64, 66, pages - 4]);
    let nthreads = 2 + t.idx(2);
    let page_size = t.pick(&[1usize, 1, 1, 3, 48, 1000, 4096]);
    let byte_size = pages * page_size - t.idx(page_size);
    let mut threads = Vec::new();
    for _ in 0..nthreads {
        let n = 1 + t.idx(4);
        threads.push((0..n).map(|_| gen_op(t, pages, focus, page_size, byte_size)).collect());
    }
    // pre-marked pages: near the focus, and anywhere (e.g. the same bit position in another word)
    let mut premarked = if t.flag() { vec![focus + t.idx(4)] } else { vec![] };
    for _ in 0..t.idx(3) {
        premarked.push(t.idx(pages));
    }
    let grown_from = if t.chance(1, 5) { Some(t.idx(byte_size + 1)) } else { None };
    Program { pages, page_size, byte_size, grown_from, premarked, threads }
}

fn shape_labels(prog: &Program, ex: &Execution, cx: &mut Cx) {
    let markers = prog.threads.iter().filter(|th| th.iter().any(|o| matches!(o, Op::SetBit(_) | Op::SetRange(..) | Op::MarkDirty(..) | Op::MarkSlice(..)))).count();
    let harvesters = prog.threads.iter().filter(|th| th.iter().any(|o| matches!(o, Op::Harvest))).count();
    let resetters = prog.threads.iter().filter(|th| th.iter().any(|o| matches!(o, Op::ResetBit(_) | Op::ResetRange(..)))).count();
    if markers >= 2 {
        cx.label("two_markers");
    }
    if markers >= 1 && harvesters >= 1 {
        cx.label("marker_and_harvester");
    }
    if resetters >= 1 {
        cx.label("has_reset");
    }
    // interleaved (not merely sequential): more switches than threads-1
    if ex.switches >= prog.threads.len() {
        cx.nt("interleaved_schedule");
    }
}

fn run_random(t: &mut Tape, cx: &mut Cx) -> Result<(), String> {
    let prog = gen_program(t);
    // the schedule comes from the tape as well
    let ex = execute(&prog, |_, k| t.idx(k));
    note!(cx, "pages {} page size {}{} premarked {:?} threads {:?} schedule {:?}", prog.pages, prog.page_size, match prog.grown_from { Some(n) => format!(" (grown from {} bytes)", n), None => String::new() }, prog.premarked, prog.threads, ex.decisions.iter().map(|d| d.1).collect::<Vec<_>>());
    shape_labels(&prog, &ex, cx);
    judge(&prog, &ex)
}

/// Small scopes: a fixed family of programs, every interleaving enumerated depth-first.
fn scope_programs() -> Vec<Program> {
    let mut v = Vec::new();
    let mk = |premarked: Vec<usize>, threads: Vec<Vec<Op>>| Program { pages: 130, page_size: 1, byte_size: 130, grown_from: None, premarked, threads };
    for base in [0usize, 62] {
        let (a, b, c) = (base, base + 1, base + 2);
        // two markers in one word
        v.push(mk(vec![], vec![vec![Op::SetBit(a)], vec![Op::SetBit(b)]]));
        v.push(mk(vec![], vec![vec![Op::SetRange(a, 2)], vec![Op::SetRange(b, 2)]]));
        v.push(mk(vec![c], vec![vec![Op::SetBit(a), Op::SetBit(b)], vec![Op::SetRange(a, 3)]]));
        // marker and harvester
        v.push(mk(vec![], vec![vec![Op::SetBit(a)], vec![Op::Harvest]]));
        v.push(mk(vec![c], vec![vec![Op::SetBit(a), Op::SetBit(b)], vec![Op::Harvest]]));
        v.push(mk(vec![c], vec![vec![Op::SetRange(a, 2)], vec![Op::Harvest, Op::Harvest]]));
        v.push(mk(vec![], vec![vec![Op::SetBit(a), Op::Harvest], vec![Op::SetBit(b), Op::Harvest]]));
        // resets racing with marks of other pages
        v.push(mk(vec![a], vec![vec![Op::ResetBit(a)], vec![Op::SetBit(b)]]));
        v.push(mk(vec![a], vec![vec![Op::ResetRange(a, 1)], vec![Op::SetBit(b)]]));
        v.push(mk(vec![a, c], vec![vec![Op::ResetRange(a, 1)], vec![Op::SetRange(b, 1), Op::Harvest]]));
        v.push(mk(vec![a], vec![vec![Op::ResetRange(a, 2)], vec![Op::SetBit(c)], vec![Op::Harvest]]));
        // ranges that start unaligned and cross a word boundary while the same bit positions of
        // the previous word are dirty
        v.push(mk(vec![0, 1], vec![vec![Op::SetRange(62, 4)], vec![Op::Harvest]]));
        v.push(mk(vec![base % 64, 64 + base % 64], vec![vec![Op::SetRange(63, 2)], vec![Op::SetRange(126, 4)]]));
        // clones
        v.push(mk(vec![a], vec![vec![Op::Clone], vec![Op::SetBit(b)]]));
        v.push(mk(vec![], vec![vec![Op::Clone, Op::Harvest], vec![Op::SetRange(a, 2)]]));
        // three threads
        v.push(mk(vec![c], vec![vec![Op::SetBit(a)], vec![Op::SetBit(b)], vec![Op::Harvest]]));
        v.push(mk(vec![a], vec![vec![Op::ResetBit(a)], vec![Op::SetBit(b)], vec![Op::Harvest]]));
    }
    v
}

fn scope_programs_deep() -> Vec<Program> {
    let mut v = scope_programs();
    let mk = |premarked: Vec<usize>, threads: Vec<Vec<Op>>| Program { pages: 130, page_size: 1, byte_size: 130, grown_from: None, premarked, threads };
    for base in [0usize, 62] {
        let (a, b, c, d) = (base, base + 1, base + 2, base + 3);
        v.push(mk(vec![d], vec![vec![Op::SetRange(a, 3), Op::Harvest], vec![Op::SetRange(b, 3), Op::Harvest]]));
        v.push(mk(vec![a], vec![vec![Op::ResetRange(a, 2), Op::SetBit(a)], vec![Op::SetRange(b, 2), Op::Harvest], vec![Op::Harvest]]));
        v.push(mk(vec![c], vec![vec![Op::SetBit(a), Op::SetBit(b), Op::Harvest], vec![Op::SetBit(d), Op::Harvest], vec![Op::Clone, Op::SetBit(a)]]));
    }
    v
}

fn run_scope(t: &mut Tape, cx: &mut Cx) -> Result<(), String> {
    let progs = if cx.tier == Tier::Thorough { scope_programs_deep() } else { scope_programs() };
    let pi = t.idx(progs.len());
    let prog = &progs[pi];
    let cap: u64 = if cx.tier == Tier::Thorough { 400_000 } else { 4_000 };
    note!(cx, "scope program {}: premarked {:?} threads {:?}", pi, prog.premarked, prog.threads);
    cx.nt("all_interleavings_of_small_scope");
    // depth-first enumeration of schedules: the prefix fixes the first choices, later choices are 0
    let mut prefix: Vec<usize> = Vec::new();
    let mut count = 0u64;
    let mut complete = true;
    loop {
        let ex = execute(prog, |step, _| prefix.get(step).copied().unwrap_or(0));
        count += 1;
        judge(prog, &ex)?;
        // next schedule: increment the last incrementable decision
        let mut d = ex.decisions.clone();
        loop {
            match d.pop() {
                None => {
                    cx.count("schedules", count);
                    if complete {
                        cx.count("scopes_enumerated_completely", 1);
                    }
                    return Ok(());
                }
                Some((k, c)) => {
                    if c + 1 < k {
                        prefix = d.iter().map(|x| x.1).collect();
                        prefix.push(c + 1);
                        break;
                    }
                }
            }
        }
        if count >= cap {
            complete = false;
            cx.count("schedules", count);
            cx.count("scopes_truncated", 1);
            return Ok(());
        }
    }
}

fn gen_scopes(tier: Tier) -> Box<dyn Iterator<Item = Vec<u64>>> {
    let n = if tier == Tier::Thorough { scope_programs_deep().len() } else { scope_programs().len() };
    Box::new((0..n as u64).map(|i| vec![i]))
}

pub fn property() -> Property {
    Property {
        id: "C08",
        rule: "a case = a concurrent program (2..3 threads x 1..4 operations from set_addr_range, Bitmap::mark_dirty directly and through slice_at(base), set_bit, reset_addr_range, reset_bit, get_and_reset, clone, is_bit_set on pages that share a 64-bit word or span two, page sizes {1, 3, 48, 1000, 4096} with byte-addressed ranges and a possibly partial last page, bitmaps created smaller and enlarged before being shared, resets that run from the middle to the end, optionally pre-marked pages) + a schedule: at every atomic operation of the bitmap (hook H2) the tape chooses which thread advances; small scopes (30 hand-picked program shapes, more and deeper in the thorough tier) have ALL their interleavings enumerated depth-first (counter 'schedules'); oracle = history invariant: harvested U final U clones are subsets of the marked pages, no page index >= page count, and every marked page that no thread reset is harvested or still set; non-trivial = a schedule that actually interleaves the threads (more context switches than threads), every enumerated scope; distinct = decoded (program, schedule)",
        assumptions: &["only sequentially consistent interleavings at the granularity of the instrumented atomic operations are produced; weak-memory reorderings are out of reach", "how often a page is reported is not asserted (over-reporting is allowed by the statement)", "reset() (plain store, documented as non-harvesting) is not part of the generated programs"],
        subchecks: vec![
            SubCheck { name: "scopes", builds: &[Build::Std], kind: Kind::Exhaustive { gen: gen_scopes }, run: run_scope },
            SubCheck { name: "random", builds: &[Build::Std], kind: Kind::Random { quick: 60_000, thorough: 2_000_000, max_words: 80 }, run: run_random },
        ],
    }
}
