//! C06 – aligned 1/2/4/8-byte guest accesses are never torn.
//!
//! Oracle: the trace of primitive accesses requested by `copy_slice_impl` (hook H1). If the
//! transfer length is 1, 2, 4 or 8 and both the guest address and the local address are
//! multiples of it, the trace must be exactly one access of that width at the guest address.
//! The domain len 0..=8 x guest address mod 8 x local address mod 8 is enumerated completely for
//! every entry point that funnels into the byte-copy helper. A black-box tearing detector
//! (writer flipping 0/!0, reader with genuine atomic loads, fixed iteration count) cross-checks.

use crate::common::*;
use crate::engine::*;
use crate::objs::*;
use crate::tape::Tape;
use crate::{ensure, note};
use std::io::Cursor;
use std::sync::atomic::{AtomicBool, Ordering};
use vm_memory::verif_hooks::{trace_arm, trace_take, Access};
use vm_memory::{Bytes, GuestAddress, GuestMemory, GuestMemoryRegion, MemoryRegionAddress, ReadVolatile, VolatileMemory, VolatileSlice, WriteVolatile};

const NENTRY: u64 = 35;
const ENTRY_NAMES: [&str; NENTRY as usize] = [
    "slice.write", "slice.read", "slice.write_slice", "slice.read_slice", "slice.copy_from::<u8>", "slice.copy_to::<u8>",
    "array<u8>.copy_from", "array<u8>.copy_to", "<&[u8]>::read_volatile", "<&mut [u8]>::write_volatile", "Cursor<&[u8]>::read_volatile",
    "Cursor<&mut [u8]>::write_volatile", "Vec<u8>::write_volatile", "slice.read_volatile_from(&[u8])", "slice.write_volatile_to(Vec)",
    "region.write", "region.read", "region.write_slice", "region.read_slice", "mem.write", "mem.read", "mem.write_slice", "mem.read_slice",
    "mem.read_volatile_from(&[u8])", "mem.write_volatile_to(Vec)", "slice.write_obj", "slice.read_obj", "region.write_obj", "region.read_obj",
    "mem.write_obj", "mem.read_obj",
    // sinks whose spare capacity (local%8 bytes) is smaller than the transfer
    "Vec<u8>(nearly full)::write_all_volatile", "slice.write_all_volatile_to(Vec nearly full)", "mem.write_volatile_to(Vec nearly full)",
    "mem.write_all_volatile_to(Vec nearly full)",
];

/// 8-aligned scratch buffer
struct Aligned {
    v: Vec<u64>,
}
impl Aligned {
    fn new(bytes: usize) -> Self {
        Aligned { v: vec![0x1111_1111_1111_1111; bytes / 8 + 2] }
    }
    fn ptr(&self) -> *mut u8 {
        self.v.as_ptr() as *mut u8
    }
    fn slice_mut(&mut self, off: usize, len: usize) -> &mut [u8] {
        // SAFETY: inside the vector.
        unsafe { std::slice::from_raw_parts_mut(self.ptr().add(off), len) }
    }
}

fn check_trace(tr: &[Access], len: usize, guest: usize, guest_is_dst: bool, what: &str, cx: &mut Cx) -> Result<(), String> {
    // sanity: the trace tiles [0,len) ascending
    let total: usize = tr.iter().map(|a| a.width).sum();
    if total != len {
        return Err(format!("HARNESS-PANIC: {}: traced widths sum to {} for a transfer of {} bytes ({:?}) - the entry point does not funnel through the traced helper", what, total, len, tr));
    }
    if len == 0 {
        return Ok(());
    }
    let g0 = if guest_is_dst { tr[0].dst } else { tr[0].src };
    let l0 = if guest_is_dst { tr[0].src } else { tr[0].dst };
    if g0 != guest {
        return Err(format!("HARNESS-PANIC: {}: first traced access touches guest address {:#x}, expected {:#x}", what, g0, guest));
    }
    let mut pos = 0;
    for a in tr {
        let g = if guest_is_dst { a.dst } else { a.src };
        if g != guest + pos {
            return Err(format!("HARNESS-PANIC: {}: accesses do not tile the range in ascending order: {:?}", what, tr));
        }
        pos += a.width;
    }
    if tr.iter().any(|a| a.bulk) {
        cx.label("bulk_path");
    }
    if matches!(len, 1 | 2 | 4 | 8) && guest % len == 0 && l0 % len == 0 {
        cx.nt("aligned_pow2_transfer");
        ensure!(
            tr.len() == 1 && tr[0].width == len && !tr[0].bulk,
            "{}: {}-byte transfer with guest address {:#x} and local address {:#x} both aligned to {} was performed as {} accesses {:?} instead of exactly one {}-byte access",
            what, len, guest, l0, len, tr.len(), tr.iter().map(|a| if a.bulk { format!("bulk{}", a.width) } else { a.width.to_string() }).collect::<Vec<_>>(), len
        );
    } else {
        // every traced non-bulk access must itself be naturally aligned on both sides
        for a in tr.iter().filter(|a| !a.bulk) {
            ensure!(a.src % a.width == 0 && a.dst % a.width == 0, "{}: misaligned {}-byte primitive access {:x?}", what, a.width, a);
        }
    }
    Ok(())
}

struct World {
    mem: vm_memory::GuestMemoryMmap<()>,
}

thread_local! {
    static WORLD: World = World {
        mem: build_mmap(&Layout { regs: vec![(0x1000, 64), (0x1040, 64)] }).expect("world"),
    };
}

fn run_class(t: &mut Tape, cx: &mut Cx) -> Result<(), String> {
    let entry = t.below(NENTRY) as usize;
    let len = t.below(25) as usize; // 0..=8 enumerated, 9..=24 bulk observation
    let gmod = t.below(8) as usize;
    let lmod = t.below(8) as usize;
    let at_end = t.below(2) == 1;
    let adj = t.below(3) as usize;
    run_one(entry, len, gmod, lmod, 0, at_end, adj, cx)
}

fn run_one(entry: usize, len: usize, gmod: usize, lmod: usize, extra_off: usize, at_end: bool, adj: usize, cx: &mut Cx) -> Result<(), String> {
    let is_obj = (25..=30).contains(&entry);
    let len = if is_obj { [1usize, 2, 4, 8][len % 4] } else { len };
    // region / guest level: optionally the last possible position inside the 64-byte region
    let at_end = at_end && (15..=30).contains(&entry) || at_end && entry >= 33;
    let what = format!("{}(len {}, guest%8={}, local%8={}{}{})", ENTRY_NAMES[entry], len, gmod, lmod, if at_end { ", at the end of the region" } else { "" }, ["", ", buffer directly behind the location", ", buffer directly in front of the location"][if (entry <= 11 || entry == 13) && len > 0 { adj } else { 0 }]);
    if at_end {
        cx.nt("ends_at_region_end");
    }
    note!(cx, "{}", what);
    cx.label(if is_obj { "object_entry" } else { "buffer_entry" });
    // guest side at slice level: an 8-aligned container, access at offset 8+gmod
    let mut cont = Aligned::new(96);
    let goff = if at_end { (64 - len - gmod) / 8 * 8 + gmod } else { 8 + gmod + extra_off };
    // SAFETY: live buffer of >= 96 bytes.
    let cs = unsafe { VolatileSlice::new(cont.ptr(), 96) };
    let mut local = Aligned::new(64);
    let lptr = local.ptr() as usize + lmod;
    let pattern: Vec<u8> = (0..len).map(|i| 0xA0u8.wrapping_add(i as u8)).collect();
    local.slice_mut(lmod, len).copy_from_slice(&pattern);
    // slice-level entries with a caller-supplied buffer: the buffer may sit directly behind (1) or
    // directly in front of (2) the guest location, in the same allocation (touching, not overlapping)
    let adj = if (entry <= 11 || entry == 13) && len > 0 && (adj != 2 || goff >= len) { adj } else { 0 };
    if adj != 0 {
        cx.nt("buffer_adjacent_to_location");
    }
    let guest_slice = cont.ptr() as usize + goff;
    let res: Result<(Vec<Access>, usize, bool), String> = WORLD.with(|w| {
        let region = w.mem.iter().next().unwrap();
        let rhost = region.as_ptr() as usize;
        let ga = GuestAddress(0x1000 + goff as u64);
        let ma = MemoryRegionAddress(goff as u64);
        let e = |r: Result<(), String>| r;
        let _ = e;
        macro_rules! ok {
            ($x:expr) => {
                $x.map(|_| ()).map_err(|err| format!("{}: unexpected error {:?}", what, err))?
            };
        }
        let lbuf: &mut [u8] = match adj {
            // SAFETY: inside the 96-byte container, disjoint from the guest location.
            1 => unsafe { std::slice::from_raw_parts_mut(cont.ptr().add(goff + len), len) },
            // SAFETY: as above.
            2 => unsafe { std::slice::from_raw_parts_mut(cont.ptr().add(goff - len), len) },
            _ => local.slice_mut(lmod, len),
        };
        if adj != 0 {
            lbuf.copy_from_slice(&pattern);
        }
        trace_arm();
        let (guest, gdst) = match entry {
            0 => { ok!(cs.write(lbuf, goff)); (guest_slice, true) }
            1 => { ok!(cs.read(lbuf, goff)); (guest_slice, false) }
            2 => { ok!(cs.write_slice(lbuf, goff)); (guest_slice, true) }
            3 => { ok!(cs.read_slice(lbuf, goff)); (guest_slice, false) }
            4 => { cs.subslice(goff, len).map_err(|e| format!("{:?}", e))?.copy_from::<u8>(lbuf); (guest_slice, true) }
            5 => { let _ = cs.subslice(goff, len).map_err(|e| format!("{:?}", e))?.copy_to::<u8>(lbuf); (guest_slice, false) }
            6 => { cs.get_array_ref::<u8>(goff, len).map_err(|e| format!("{:?}", e))?.copy_from(lbuf); (guest_slice, true) }
            7 => { let _ = cs.get_array_ref::<u8>(goff, len).map_err(|e| format!("{:?}", e))?.copy_to(lbuf); (guest_slice, false) }
            8 => { let mut s: &[u8] = lbuf; let mut d = cs.subslice(goff, len).map_err(|e| format!("{:?}", e))?; ok!(s.read_volatile(&mut d)); (guest_slice, true) }
            9 => { let mut s: &mut [u8] = lbuf; let d = cs.subslice(goff, len).map_err(|e| format!("{:?}", e))?; ok!(s.write_volatile(&d)); (guest_slice, false) }
            10 => { let mut c = Cursor::new(&lbuf[..]); let mut d = cs.subslice(goff, len).map_err(|e| format!("{:?}", e))?; ok!(c.read_volatile(&mut d)); (guest_slice, true) }
            11 => { let mut c = Cursor::new(&mut lbuf[..]); let d = cs.subslice(goff, len).map_err(|e| format!("{:?}", e))?; ok!(c.write_volatile(&d)); (guest_slice, false) }
            12 => {
                let mut v: Vec<u8> = Vec::with_capacity(64);
                v.extend(std::iter::repeat(0u8).take(lmod));
                let d = cs.subslice(goff, len).map_err(|e| format!("{:?}", e))?;
                ok!(v.write_volatile(&d));
                (guest_slice, false)
            }
            13 => { let mut s: &[u8] = lbuf; ok!(cs.read_volatile_from(goff, &mut s, len)); (guest_slice, true) }
            14 => { let mut v: Vec<u8> = Vec::with_capacity(64); v.extend(std::iter::repeat(0u8).take(lmod)); ok!(cs.write_volatile_to(goff, &mut v, len)); (guest_slice, false) }
            15 => { ok!(region.write(lbuf, ma)); (rhost + goff, true) }
            16 => { ok!(region.read(lbuf, ma)); (rhost + goff, false) }
            17 => { ok!(region.write_slice(lbuf, ma)); (rhost + goff, true) }
            18 => { ok!(region.read_slice(lbuf, ma)); (rhost + goff, false) }
            19 => { ok!(w.mem.write(lbuf, ga)); (rhost + goff, true) }
            20 => { ok!(w.mem.read(lbuf, ga)); (rhost + goff, false) }
            21 => { ok!(w.mem.write_slice(lbuf, ga)); (rhost + goff, true) }
            22 => { ok!(w.mem.read_slice(lbuf, ga)); (rhost + goff, false) }
            23 => { let mut s: &[u8] = lbuf; ok!(w.mem.read_volatile_from(ga, &mut s, len)); (rhost + goff, true) }
            24 => { let mut v: Vec<u8> = Vec::with_capacity(64); v.extend(std::iter::repeat(0u8).take(lmod)); ok!(w.mem.write_volatile_to(ga, &mut v, len)); (rhost + goff, false) }
            31 => {
                let mut v: Vec<u8> = Vec::with_capacity(8 + lmod);
                v.extend(std::iter::repeat(0u8).take(8));
                let d = cs.subslice(goff, len).map_err(|e| format!("{:?}", e))?;
                ok!(v.write_all_volatile(&d));
                (guest_slice, false)
            }
            32 => { let mut v: Vec<u8> = Vec::with_capacity(8 + lmod); v.extend(std::iter::repeat(0u8).take(8)); ok!(cs.write_all_volatile_to(goff, &mut v, len)); (guest_slice, false) }
            33 => { let mut v: Vec<u8> = Vec::with_capacity(8 + lmod); v.extend(std::iter::repeat(0u8).take(8)); ok!(w.mem.write_volatile_to(ga, &mut v, len)); (rhost + goff, false) }
            34 => { let mut v: Vec<u8> = Vec::with_capacity(8 + lmod); v.extend(std::iter::repeat(0u8).take(8)); ok!(w.mem.write_all_volatile_to(ga, &mut v, len)); (rhost + goff, false) }
            25 | 27 | 29 => {
                let ty = [0usize, 1, 2, 3][[1usize, 2, 4, 8].iter().position(|x| *x == len).unwrap()];
                let bytes = [0x5Au8; 16];
                match entry {
                    25 => { ok!(write_obj_sel(&cs, ty, &bytes, goff)); (guest_slice, true) }
                    27 => { ok!(write_obj_sel(region, ty, &bytes, ma)); (rhost + goff, true) }
                    _ => { ok!(write_obj_sel(&w.mem, ty, &bytes, ga)); (rhost + goff, true) }
                }
            }
            _ => {
                let ty = [0usize, 1, 2, 3][[1usize, 2, 4, 8].iter().position(|x| *x == len).unwrap()];
                match entry {
                    26 => { ok!(read_obj_sel(&cs, ty, goff)); (guest_slice, false) }
                    28 => { ok!(read_obj_sel(region, ty, ma)); (rhost + goff, false) }
                    _ => { ok!(read_obj_sel(&w.mem, ty, ga)); (rhost + goff, false) }
                }
            }
        };
        Ok((trace_take(), guest, gdst))
    });
    let (tr, guest, gdst) = match res {
        Ok(x) => x,
        Err(e) => {
            let _ = trace_take();
            return Err(e);
        }
    };
    let _ = lptr;
    check_trace(&tr, len, guest, gdst, &what, cx)
}

fn gen_classes(_t: Tier) -> Box<dyn Iterator<Item = Vec<u64>>> {
    Box::new((0..NENTRY).flat_map(|e| {
        let ends: u64 = if (15..=30).contains(&e) || e >= 33 { 2 } else { 1 };
        let adjs: u64 = if e <= 11 || e == 13 { 3 } else { 1 };
        (0..25u64).flat_map(move |len| (0..8u64).flat_map(move |g| (0..8u64).flat_map(move |l| (0..ends).flat_map(move |at| (0..adjs).filter(move |a| *a == 0 || l == 0).map(move |a| vec![e, len, g, l, at, a])))))
    }))
}

/// random (entry, offset, len) at all levels, including offsets beyond the first 8 bytes
fn run_random(t: &mut Tape, cx: &mut Cx) -> Result<(), String> {
    let entry = t.below(NENTRY) as usize;
    let len = match t.below(3) {
        0 => t.pick(&[1usize, 2, 4, 8]),
        _ => t.idx(25),
    };
    let gmod = t.idx(8);
    let lmod = t.idx(8);
    let extra = 8 * t.idx(3);
    let at_end = t.chance(1, 4);
    let adj = if t.chance(1, 3) { 1 + t.idx(2) } else { 0 };
    run_one(entry, len, gmod, lmod, extra, at_end, adj, cx)
}

/// Atomic API: every AtomicAccess type at every offset mod 16, all orderings.
fn run_atomic_api(t: &mut Tape, cx: &mut Cx) -> Result<(), String> {
    let ty = t.below(NATOM as u64) as usize;
    let off = t.below(16) as usize;
    let level = t.below(3);
    // base alignment of the slice-level container (the *address* decides, not the offset)
    let bmod = if level == 0 { t.below(16) as usize } else { 0 };
    let sz = ATOM_SIZES[ty];
    let mut cont = Aligned::new(96);
    // 16-align inside the container, then shift by bmod
    let base = (16 - (cont.ptr() as usize % 16)) % 16 + bmod;
    // SAFETY: live buffer.
    let cs = unsafe { VolatileSlice::new(cont.ptr().add(base), 40) };
    let val = [0xC3u8, 0x5A, 0x11, 0x7E, 0x99, 0x02, 0xF0, 0x6B];
    note!(cx, "atomic {} at offset {} level {} container base % 16 = {}", ATOM_NAMES[ty], off, level, bmod);
    let aligned = (bmod + off) % sz == 0;
    if bmod % sz != 0 {
        cx.nt("container_base_misaligned");
    }
    if aligned {
        cx.nt("aligned_atomic");
    } else {
        cx.nt("misaligned_atomic_refused");
    }
    if level == 0 {
        // the reference-returning form: refused when the *address* is misaligned, otherwise an
        // aligned reference to the right location
        use std::sync::atomic::*;
        macro_rules! aref {
            ($A:ty) => {{
                match cs.get_atomic_ref::<$A>(off) {
                    Ok(r) => {
                        let p = r as *const $A as usize;
                        ensure!(aligned, "get_atomic_ref::<{}>({}) on a container based at % 16 = {} returned a reference to the misaligned address {:#x}", stringify!($A), off, bmod, p);
                        ensure!(p % std::mem::align_of::<$A>() == 0 && p == cs.ptr_guard().as_ptr() as usize + off, "get_atomic_ref::<{}>({}) points at {:#x}", stringify!($A), off, p);
                    }
                    Err(e) => ensure!(!aligned, "get_atomic_ref::<{}>({}) refused a suitably aligned address (container base % 16 = {}): {:?}", stringify!($A), off, bmod, e),
                }
            }};
        }
        match ty {
            0 => aref!(AtomicU8),
            1 => aref!(AtomicU16),
            2 => aref!(AtomicU32),
            3 => aref!(AtomicU64),
            4 => aref!(AtomicI8),
            5 => aref!(AtomicI32),
            6 => aref!(AtomicUsize),
            _ => aref!(AtomicI64),
        }
    }
    for (so, lo) in STORE_ORDERS.iter().zip(LOAD_ORDERS.iter()) {
        let (rs, rl): (Result<(), String>, Result<Vec<u8>, String>) = match level {
            0 => (store_sel(&cs, ty, &val, off, *so).map_err(|e| format!("{:?}", e)), load_sel(&cs, ty, off, *lo).map_err(|e| format!("{:?}", e))),
            1 => WORLD.with(|w| {
                let r = w.mem.iter().next().unwrap();
                (store_sel(r, ty, &val, MemoryRegionAddress(off as u64), *so).map_err(|e| format!("{:?}", e)), load_sel(r, ty, MemoryRegionAddress(off as u64), *lo).map_err(|e| format!("{:?}", e)))
            }),
            _ => WORLD.with(|w| {
                (store_sel(&w.mem, ty, &val, GuestAddress(0x1000 + off as u64), *so).map_err(|e| format!("{:?}", e)), load_sel(&w.mem, ty, GuestAddress(0x1000 + off as u64), *lo).map_err(|e| format!("{:?}", e)))
            }),
        };
        if aligned {
            ensure!(rs.is_ok(), "aligned atomic store::<{}> at offset {} refused: {:?}", ATOM_NAMES[ty], off, rs);
            ensure!(matches!(&rl, Ok(v) if v[..] == val[..sz]), "atomic load::<{}> at offset {} = {:?}, stored {:x?}", ATOM_NAMES[ty], off, rl, &val[..sz]);
        } else {
            ensure!(rs.is_err() && rl.is_err(), "misaligned atomic access::<{}> at offset {} (address % {} = {}) was not refused", ATOM_NAMES[ty], off, sz, (bmod + off) % sz);
        }
    }
    let _ = &mut cont;
    Ok(())
}

thread_local! {
    static WORLD2: World = World {
        mem: build_mmap(&Layout { regs: vec![(0x2000, 0x44), (0x2044, 0x3c)] }).expect("world2"),
    };
}

/// Guest-level atomic accesses around the junction of two adjacent regions: a value that does
/// not lie inside one region, or whose host address is misaligned, must be refused - it cannot
/// be performed as one access.
fn run_atomic_junction(t: &mut Tape, cx: &mut Cx) -> Result<(), String> {
    let ty = t.below(NATOM as u64) as usize;
    let world = t.below(2);
    let delta = t.below(17) as i64 - 8;
    let sz = ATOM_SIZES[ty];
    let val = [0x3Cu8, 0xA5, 0x19, 0x7E, 0x91, 0x02, 0xF8, 0x6D];
    let mut body = |w: &World, junction: u64| -> Result<(), String> {
        let a = (junction as i64 + delta) as u64;
        let ga = GuestAddress(a);
        let expect_ok = match w.mem.to_region_addr(ga) {
            None => false,
            Some((r, off)) => off.0 + sz as u64 <= r.len() && (r.as_ptr() as usize + off.0 as usize) % sz == 0,
        };
        note!(cx, "atomic {} at guest {:#x} (junction {:#x}{:+}) expect {}", ATOM_NAMES[ty], a, junction, delta, if expect_ok { "ok" } else { "refused" });
        cx.nt(if expect_ok { "junction_aligned_inside" } else { "junction_refused" });
        let rs = store_sel(&w.mem, ty, &val, ga, Ordering::SeqCst);
        let rl = load_sel(&w.mem, ty, ga, Ordering::SeqCst);
        if expect_ok {
            ensure!(rs.is_ok(), "atomic store::<{}> at {:#x} refused although it is aligned and inside one region: {:?}", ATOM_NAMES[ty], a, rs);
            ensure!(matches!(&rl, Ok(v) if v[..] == val[..sz]), "atomic load::<{}> at {:#x} = {:?}", ATOM_NAMES[ty], a, rl);
        } else {
            ensure!(rs.is_err() && rl.is_err(), "atomic access::<{}> at guest {:#x} was accepted although it {} (junction of two regions at {:#x}): it cannot be one access", ATOM_NAMES[ty], a, "crosses the region boundary or is misaligned", junction);
        }
        Ok(())
    };
    if world == 0 {
        WORLD.with(|w| body(w, 0x1040))
    } else {
        WORLD2.with(|w| body(w, 0x2044))
    }
}

fn gen_junction(_t: Tier) -> Box<dyn Iterator<Item = Vec<u64>>> {
    Box::new((0..NATOM as u64).flat_map(|ty| (0..2u64).flat_map(move |w| (0..17u64).map(move |d| vec![ty, w, d]))))
}

fn gen_atomic(_t: Tier) -> Box<dyn Iterator<Item = Vec<u64>>> {
    Box::new((0..NATOM as u64).flat_map(|ty| {
        (0..16u64).flat_map(move |o| (0..3u64).flat_map(move |l| (0..if l == 0 { 16u64 } else { 1 }).map(move |b| vec![ty, o, l, b])))
    }))
}

/// Black-box tearing detector: can only fail on a real tear.
fn run_tearing(t: &mut Tape, cx: &mut Cx) -> Result<(), String> {
    let width = [2usize, 4, 8][t.below(3) as usize];
    let writer_is_lib = t.below(2) == 0;
    let off = t.below(4) as usize * width; // aligned to width, not necessarily to 2*width
    // the caller's buffer is a separate object, or touches the location (same allocation)
    let adjacent = t.below(2) == 1;
    let iters: u64 = if cx.tier == Tier::Quick { 400_000 } else { 150_000_000 };
    note!(cx, "tearing: width {} offset {} {} x{}{}", width, off, if writer_is_lib { "library writes, atomic reader" } else { "atomic writer, library reads" }, iters, if adjacent { ", buffers touching the location" } else { "" });
    cx.nt("tearing_detector");
    let cont = Aligned::new(128);
    let base = (16 - (cont.ptr() as usize % 16)) % 16;
    let ptr = cont.ptr() as usize + base + 16 + off;
    // SAFETY: inside the live buffer; start from a legal value. The `width` bytes in front of the
    // location hold 00.., the ones behind it FF.. (sources of the adjacent-buffer writes).
    unsafe {
        std::ptr::write_bytes(ptr as *mut u8, 0, width);
        std::ptr::write_bytes((ptr - width) as *mut u8, 0, width);
        std::ptr::write_bytes((ptr + width) as *mut u8, 0xFF, width);
    }
    let stop = AtomicBool::new(false);
    let torn = std::sync::Mutex::new(None::<u64>);
    let mask: u64 = if width == 8 { u64::MAX } else { (1u64 << (8 * width)) - 1 };
    std::thread::scope(|sc| {
        let stop = &stop;
        let torn = &torn;
        // the library side
        sc.spawn(move || {
            // SAFETY: live buffer owned by the enclosing scope.
            let s = unsafe { VolatileSlice::new(ptr as *mut u8, width) };
            let mut i = 0u64;
            while i < iters && !stop.load(Ordering::Relaxed) {
                if writer_is_lib && adjacent {
                    // SAFETY: constant bytes next to the location, never written during the run.
                    let src = unsafe { std::slice::from_raw_parts((if i & 1 == 0 { ptr - width } else { ptr + width }) as *const u8, width) };
                    let _ = s.write(src, 0);
                } else if writer_is_lib {
                    let v = if i & 1 == 0 { 0u64 } else { u64::MAX };
                    let _ = match width {
                        2 => s.write_obj(v as u16, 0),
                        4 => s.write_obj(v as u32, 0),
                        _ => s.write_obj(v, 0),
                    };
                } else {
                    let v: u64 = if adjacent {
                        // SAFETY: scratch bytes directly behind the location, used by this thread only.
                        let dst = unsafe { std::slice::from_raw_parts_mut((ptr + width) as *mut u8, width) };
                        let _ = s.read(dst, 0);
                        let mut b = [0u8; 8];
                        b[..width].copy_from_slice(dst);
                        u64::from_ne_bytes(b)
                    } else {
                        match width {
                            2 => s.read_obj::<u16>(0).map(|x| x as u64).unwrap_or(0),
                            4 => s.read_obj::<u32>(0).map(|x| x as u64).unwrap_or(0),
                            _ => s.read_obj::<u64>(0).unwrap_or(0),
                        }
                    };
                    if v != 0 && v != mask {
                        *torn.lock().unwrap() = Some(v);
                        break;
                    }
                }
                i += 1;
            }
            stop.store(true, Ordering::SeqCst);
        });
        // the genuinely atomic side
        sc.spawn(move || {
            let mut i = 0u64;
            while !stop.load(Ordering::Relaxed) {
                // SAFETY: naturally aligned live location.
                unsafe {
                    if writer_is_lib {
                        let v: u64 = match width {
                            2 => (*(ptr as *const std::sync::atomic::AtomicU16)).load(Ordering::Relaxed) as u64,
                            4 => (*(ptr as *const std::sync::atomic::AtomicU32)).load(Ordering::Relaxed) as u64,
                            _ => (*(ptr as *const std::sync::atomic::AtomicU64)).load(Ordering::Relaxed),
                        };
                        if v != 0 && v != mask {
                            *torn.lock().unwrap() = Some(v);
                            stop.store(true, Ordering::SeqCst);
                            break;
                        }
                    } else {
                        let v = if i & 1 == 0 { 0u64 } else { u64::MAX };
                        match width {
                            2 => (*(ptr as *const std::sync::atomic::AtomicU16)).store(v as u16, Ordering::Relaxed),
                            4 => (*(ptr as *const std::sync::atomic::AtomicU32)).store(v as u32, Ordering::Relaxed),
                            _ => (*(ptr as *const std::sync::atomic::AtomicU64)).store(v, Ordering::Relaxed),
                        }
                    }
                }
                i += 1;
            }
        });
    });
    if let Some(v) = *torn.lock().unwrap() {
        return Err(format!("torn {}-byte access at an address aligned to {}: observed {:#x} while only 0 and {:#x} were ever written", width, width, v, mask));
    }
    Ok(())
}

fn gen_tearing(_t: Tier) -> Box<dyn Iterator<Item = Vec<u64>>> {
    Box::new((0..3u64).flat_map(|w| (0..2u64).flat_map(move |d| (0..4u64).flat_map(move |o| (0..2u64).map(move |a| vec![w, d, o, a])))))
}

/// Store-buffering litmus test for the requested ordering: two threads, two locations; each
/// stores 1 to its own location and then loads the other one, both with SeqCst, through the
/// library. Under sequential consistency at least one of them sees the other's store; "both read
/// 0" is only possible if a SeqCst store was carried out as something weaker. Fixed number of
/// rounds; a correct implementation can never produce the forbidden outcome.
fn run_litmus(t: &mut Tape, cx: &mut Cx) -> Result<(), String> {
    use std::sync::atomic::AtomicUsize;
    let level = t.below(4) as usize; // 0 slice 1 region 2 guest memory 3 references from get_atomic_ref
    let ty = t.below(4) as usize; // u8 u16 u32 u64
    let rounds: usize = if cx.tier == Tier::Quick { 25_000 } else { 4_000_000 };
    note!(cx, "store buffering, SeqCst {} store then load at {} level, {} rounds", ATOM_NAMES[ty], ["slice", "region", "guest-memory", "atomic-reference"][level], rounds);
    cx.nt("ordering_litmus");
    let mem = build_mmap(&Layout { regs: vec![(0x1000, 4096)] })?;
    let region = mem.iter().next().unwrap();
    let host = region.as_ptr() as usize;
    let offs = [64usize, 1024];
    let go = AtomicUsize::new(0);
    let done = AtomicUsize::new(0);
    let seen = [AtomicUsize::new(0), AtomicUsize::new(0)];
    let stop = AtomicBool::new(false);
    let one = [1u8, 0, 0, 0, 0, 0, 0, 0];
    let mut forbidden: Option<usize> = None;
    std::thread::scope(|sc| {
        for me in 0..2usize {
            let (go, done, seen, stop, mem) = (&go, &done, &seen, &stop, &mem);
            sc.spawn(move || {
                let region = mem.iter().next().unwrap();
                let (mine, other) = (offs[me], offs[1 - me]);
                // SAFETY: inside the live mapping.
                let vs = unsafe { VolatileSlice::new(host as *mut u8, 4096) };
                let mut i = 1usize;
                loop {
                    let mut spins = 0u32;
                    while go.load(Ordering::Acquire) < i {
                        if stop.load(Ordering::Relaxed) {
                            return;
                        }
                        spins += 1;
                        if spins < 4000 { std::hint::spin_loop() } else { std::thread::yield_now() }
                    }
                    let got = match level {
                        0 => {
                            store_sel(&vs, ty, &one, mine, Ordering::SeqCst).expect("store");
                            load_sel(&vs, ty, other, Ordering::SeqCst).expect("load")[0]
                        }
                        1 => {
                            store_sel(region, ty, &one, MemoryRegionAddress(mine as u64), Ordering::SeqCst).expect("store");
                            load_sel(region, ty, MemoryRegionAddress(other as u64), Ordering::SeqCst).expect("load")[0]
                        }
                        2 => {
                            store_sel(mem, ty, &one, GuestAddress(0x1000 + mine as u64), Ordering::SeqCst).expect("store");
                            load_sel(mem, ty, GuestAddress(0x1000 + other as u64), Ordering::SeqCst).expect("load")[0]
                        }
                        _ => {
                            use vm_memory::AtomicInteger;
                            let a = vs.get_atomic_ref::<std::sync::atomic::AtomicU64>(mine).expect("ref");
                            let b = vs.get_atomic_ref::<std::sync::atomic::AtomicU64>(other).expect("ref");
                            AtomicInteger::store(a, 1, Ordering::SeqCst);
                            AtomicInteger::load(b, Ordering::SeqCst) as u8
                        }
                    };
                    seen[me].store(got as usize, Ordering::Relaxed);
                    done.fetch_add(1, Ordering::Release);
                    i += 1;
                }
            });
        }
        for i in 1..=rounds {
            // SAFETY: naturally aligned locations inside the live mapping; both threads are parked.
            unsafe {
                (*((host + offs[0]) as *const std::sync::atomic::AtomicU64)).store(0, Ordering::SeqCst);
                (*((host + offs[1]) as *const std::sync::atomic::AtomicU64)).store(0, Ordering::SeqCst);
            }
            go.store(i, Ordering::Release);
            let mut spins = 0u32;
            while done.load(Ordering::Acquire) < 2 * i {
                spins += 1;
                if spins < 4000 { std::hint::spin_loop() } else { std::thread::yield_now() }
            }
            if seen[0].load(Ordering::Relaxed) == 0 && seen[1].load(Ordering::Relaxed) == 0 {
                forbidden = Some(i);
                break;
            }
        }
        stop.store(true, Ordering::SeqCst);
    });
    if let Some(i) = forbidden {
        return Err(format!("round {}: both threads stored 1 to their own location and then read 0 from the other one, with SeqCst requested for all four {} accesses ({} level): the requested ordering was not applied", i, ATOM_NAMES[ty], ["slice", "region", "guest-memory", "atomic-reference"][level]));
    }
    Ok(())
}

fn gen_litmus(_t: Tier) -> Box<dyn Iterator<Item = Vec<u64>>> {
    Box::new((0..4u64).flat_map(|l| (0..4u64).map(move |ty| vec![l, ty])))
}

/// xen build: the atomic load/store API over emulated regions; for grant regions mapped on
/// demand there is no host pointer and alignment is judged on the offset.
#[cfg(feature = "xen")]
fn run_xen_atomic(t: &mut Tape, cx: &mut Cx) -> Result<(), String> {
    use crate::xen_emul::{build as xbuild, live, reset, Kind as XKind};
    reset();
    let kind = [XKind::GrantOnDemand, XKind::GrantAdvance, XKind::Foreign, XKind::UnixFile, XKind::UnixAnon][t.below(5) as usize];
    let ty = t.below(NATOM as u64) as usize;
    let sz = ATOM_SIZES[ty];
    let k = t.below(32) as usize;
    let off = if k < 16 { k } else { 4088 + (k - 16) };
    let level = t.below(3);
    let base = 0x3000u64;
    let size = 8192usize;
    let xr = xbuild::<()>(kind, base, size)?;
    let init: Vec<u8> = (0..size).map(|i| (i as u8).wrapping_mul(11).wrapping_add(5)).collect();
    xr.raw_write(&init);
    let regs = vec![std::sync::Arc::new(xr.region)];
    let mem = vm_memory::GuestMemoryMmap::from_arc_regions(regs).map_err(|e| format!("{:?}", e))?;
    let region = mem.iter().next().unwrap();
    let aligned = off % sz == 0;
    let val = [0xC3u8, 0x5A, 0x11, 0x7E, 0x99, 0x02, 0xF0, 0x6B];
    let what = format!("atomic {} at offset {:#x} of a {:?} region, level {}", ATOM_NAMES[ty], off, kind, ["slice", "region", "guest-memory"][level as usize]);
    note!(cx, "{}", what);
    cx.nt("xen_atomic_api_class");
    let raw = |f: &Option<(std::fs::File, u64)>| -> Vec<u8> {
        match f {
            Some((f, o)) => pread_all(f, *o, size),
            // SAFETY: unix mapping of `size` bytes.
            None => (0..size).map(|i| unsafe { region.as_ptr().add(i).read_volatile() }).collect(),
        }
    };
    let order_s = STORE_ORDERS[t.idx(3)];
    let order_l = LOAD_ORDERS[t.idx(3)];
    let (rs, rl) = match level {
        0 => {
            let vs = region.as_volatile_slice().map_err(|e| format!("{:?}", e))?;
            (store_sel(&vs, ty, &val, off, order_s).map_err(|e| format!("{:?}", e)), load_sel(&vs, ty, off, order_l).map_err(|e| format!("{:?}", e)))
        }
        1 => (store_sel(region, ty, &val, MemoryRegionAddress(off as u64), order_s).map_err(|e| format!("{:?}", e)), load_sel(region, ty, MemoryRegionAddress(off as u64), order_l).map_err(|e| format!("{:?}", e))),
        _ => (store_sel(&mem, ty, &val, GuestAddress(base + off as u64), order_s).map_err(|e| format!("{:?}", e)), load_sel(&mem, ty, GuestAddress(base + off as u64), order_l).map_err(|e| format!("{:?}", e))),
    };
    let now = raw(&xr.file);
    if aligned {
        rs.map_err(|e| format!("{}: aligned store refused: {}", what, e))?;
        let got = rl.map_err(|e| format!("{}: aligned load refused: {}", what, e))?;
        ensure!(got[..] == val[..sz], "{}: loaded {:x?}, stored {:x?}", what, got, &val[..sz]);
        let mut want = init.clone();
        want[off..off + sz].copy_from_slice(&val[..sz]);
        ensure!(now == want, "{}: the device does not hold exactly the stored value at that offset", what);
    } else {
        cx.nt("misaligned_refused");
        ensure!(rs.is_err(), "{}: a store at a misaligned offset was not refused", what);
        ensure!(rl.is_err(), "{}: a load at a misaligned offset was not refused", what);
        ensure!(now == init, "{}: a refused access modified memory", what);
    }
    ensure!(live().len() <= 1, "{}: temporary windows remain: {:x?}", what, live());
    Ok(())
}

#[cfg(not(feature = "xen"))]
fn run_xen_atomic(_t: &mut Tape, _cx: &mut Cx) -> Result<(), String> {
    Ok(())
}

fn gen_xen_atomic(_t: Tier) -> Box<dyn Iterator<Item = Vec<u64>>> {
    Box::new((0..5u64).flat_map(|k| (0..NATOM as u64).flat_map(move |ty| (0..32u64).flat_map(move |o| (0..3u64).map(move |l| vec![k, ty, o, l, (k + ty + o) % 3, (ty + o + l) % 3])))))
}

pub fn property() -> Property {
    Property {
        id: "C06",
        rule: "complete enumeration of (entry point x length 0..=24 x guest address mod 8 x local address mod 8) for 35 entry points that funnel into the byte-copy helper (buffer reads/writes at slice, region and guest level, 1-byte-element copies, in-memory stream adapters incl. nearly full Vec sinks through the write_all paths, object reads/writes of 1/2/4/8 bytes), region/guest-level entries additionally at the last possible position inside the region, slice-level entries with a caller-supplied buffer additionally with the buffer touching the guest location on either side; oracle = trace of the primitive accesses the library requests (hook): length in {1,2,4,8} with both addresses aligned to it => exactly one access of that width; plus the atomic load/store API for every AtomicAccess type x offset mod 16 x level (misaligned refused, aligned round trip), random offsets, a threaded tearing detector and a store-buffering litmus test (SeqCst requested at slice / region / guest / atomic-reference level) with fixed iteration counts; xen build: the atomic API for every type x offset (0..15 and around a page boundary) x level over emulated regions of every kind, judged through the device file; non-trivial = aligned power-of-two transfer (the rule bites), atomic API class, tearing run; distinct = (entry, len, guest mod 8, local mod 8)",
        assumptions: &["a naturally aligned volatile load/store of <= 8 bytes is a single machine access on the supported 64-bit targets", "the hook observes the accesses the library requests; a change inside one copy_single arm is visible only to the tearing detector", "guest regions start at multiples of 8 so guest and host alignment coincide"],
        subchecks: vec![
            SubCheck { name: "classes", builds: &[Build::Std, Build::Plain], kind: Kind::Exhaustive { gen: gen_classes }, run: run_class },
            SubCheck { name: "atomic_api", builds: &[Build::Std, Build::Plain], kind: Kind::Exhaustive { gen: gen_atomic }, run: run_atomic_api },
            SubCheck { name: "atomic_junction", builds: &[Build::Std, Build::Plain], kind: Kind::Exhaustive { gen: gen_junction }, run: run_atomic_junction },
            SubCheck { name: "tearing", builds: &[Build::Plain], kind: Kind::Exhaustive { gen: gen_tearing }, run: run_tearing },
            SubCheck { name: "random", builds: &[Build::Std], kind: Kind::Random { quick: 60_000, thorough: 3_000_000, max_words: 8 }, run: run_random },
            SubCheck { name: "ordering_litmus", builds: &[Build::Std, Build::Plain], kind: Kind::Exhaustive { gen: gen_litmus }, run: run_litmus },
            SubCheck { name: "xen_atomic_api", builds: &[Build::Xen], kind: Kind::Exhaustive { gen: gen_xen_atomic }, run: run_xen_atomic },
        ],
    }
}
