//! C09 – the page bitmap behaves as a set of page numbers under every operation sequence.
//! Oracle: `BTreeSet<usize>` + page count + byte size, compared over the whole index range plus
//! a margin after every step.

use crate::engine::*;
use crate::tape::Tape;
use crate::{ensure, note};
use std::collections::BTreeSet;
use std::num::NonZeroUsize;
use std::sync::Arc;
use vm_memory::bitmap::{ArcSlice, AtomicBitmap, Bitmap, RefSlice};

#[derive(Clone, Debug)]
pub struct Model {
    pub set: BTreeSet<usize>,
    pub pages: usize,
    pub byte_size: usize,
    pub page: usize,
}

impl Model {
    pub fn new(byte_size: usize, page: usize) -> Self {
        Model { set: BTreeSet::new(), pages: byte_size.div_ceil(page), byte_size, page }
    }
    /// pages overlapped by [s, s+l) that exist
    pub fn range_pages(&self, s: usize, l: usize) -> std::ops::Range<usize> {
        if l == 0 {
            return 0..0;
        }
        let first = (s as u128) / self.page as u128;
        let last = (s as u128 + l as u128 - 1) / self.page as u128;
        let first = first.min(self.pages as u128) as usize;
        let end = (last + 1).min(self.pages as u128) as usize;
        first..end.max(first)
    }
    pub fn mark(&mut self, s: usize, l: usize, set: bool) {
        for p in self.range_pages(s, l) {
            if set {
                self.set.insert(p);
            } else {
                self.set.remove(&p);
            }
        }
    }
    pub fn bit(&mut self, i: usize, set: bool) {
        if i < self.pages {
            if set {
                self.set.insert(i);
            } else {
                self.set.remove(&i);
            }
        }
    }
    pub fn addr_set(&self, a: usize) -> bool {
        self.set.contains(&(a / self.page))
    }
}

pub fn compare(b: &AtomicBitmap, m: &Model, what: &str) -> Result<(), String> {
    ensure!(b.len() == m.pages, "{}: len() = {}, model has {} pages (byte size {}, page size {})", what, b.len(), m.pages, m.byte_size, m.page);
    ensure!(b.byte_size() == m.byte_size, "{}: byte_size() = {}, model {}", what, b.byte_size(), m.byte_size);
    for i in 0..m.pages + 70 {
        let got = b.is_bit_set(i);
        let want = m.set.contains(&i);
        ensure!(got == want, "{}: is_bit_set({}) = {}, model says {} ({} pages of {} bytes)", what, i, got, want, m.pages, m.page);
    }
    // addresses: first and last byte of some pages and beyond the end
    let step = (m.pages / 40).max(1);
    let mut p = 0;
    while p < m.pages + 3 {
        for a in [(p as u128) * m.page as u128, (p as u128 + 1) * m.page as u128 - 1] {
            if a <= usize::MAX as u128 {
                let a = a as usize;
                let want = m.addr_set(a);
                ensure!(b.is_addr_set(a) == want, "{}: is_addr_set({:#x}) = {}, model {}", what, a, !want, want);
                ensure!(b.dirty_at(a) == want, "{}: dirty_at({:#x}) = {}, model {}", what, a, !want, want);
            }
        }
        p += step;
    }
    ensure!(!b.is_addr_set(usize::MAX) || m.addr_set(usize::MAX), "{}: is_addr_set(usize::MAX) is true", what);
    ensure!(!b.is_bit_set(usize::MAX), "{}: is_bit_set(usize::MAX) is true", what);
    Ok(())
}

fn gen_dims(t: &mut Tape) -> (usize, usize) {
    let page = match t.below(10) {
        0 => 1,
        1 => 2,
        2 => 3,
        3 => 7,
        4 => 64,
        5 => 100,
        6 => 128,
        7 => 4096,
        8 => 1 + t.idx(300),
        _ => 1 << 20,
    };
    let target = match t.below(12) {
        0 => 0,
        1 => 1,
        2 => 2,
        3 => 63,
        4 => 64,
        5 => 65,
        6 => 127,
        7 => 128,
        8 => 129,
        9 => 192 + t.idx(3),
        _ => t.idx(200),
    };
    let delta = match t.below(5) {
        0 => 0usize,
        1 => 1,
        2 => page - 1,
        3 => page / 2,
        _ => t.idx(page),
    };
    let byte_size = match t.below(3) {
        0 => target * page,
        1 => (target * page).saturating_sub(delta),
        _ => target * page + delta,
    };
    (byte_size, page)
}

fn gen_range(t: &mut Tape, m: &Model) -> (usize, usize) {
    let total = m.pages * m.page;
    let s = match t.below(8) {
        0..=3 => t.idx(total + 2),
        4 => (t.idx(m.pages + 1)) * m.page,
        5 => ((t.idx(m.pages + 1)) * m.page).saturating_sub(1),
        6 => usize::MAX - t.idx(4 * m.page + 4),
        _ => t.size_near(m.byte_size as u64) as usize,
    };
    let l = match t.below(9) {
        0 => 0,
        1 => 1,
        2 => m.page,
        3 => m.page + 1,
        4 => m.page.saturating_sub(1).max(1),
        5 => 64 * m.page + t.idx(3),
        6 => total.saturating_sub(s.min(total)) + t.idx(3),
        7 => t.size_near(total as u64) as usize,
        _ => t.idx(3 * m.page + 2),
    };
    (s, l)
}

fn classify_range(m: &Model, s: usize, l: usize, cx: &mut Cx) {
    let r = m.range_pages(s, l);
    if r.len() >= 2 {
        cx.nt("range_spans_pages");
    }
    if r.len() >= 1 && (r.start / 64 != (r.end - 1) / 64) {
        cx.nt("range_crosses_word");
    }
    if l > 0 && (s as u128 + l as u128) > (m.pages as u128 * m.page as u128) {
        cx.nt("range_past_end");
    }
    if s.checked_add(l).is_none() {
        cx.nt("range_overflows_usize");
    }
}

fn run(t: &mut Tape, cx: &mut Cx) -> Result<(), String> {
    let (byte_size, page) = gen_dims(t);
    // other ways to obtain a bitmap: with_len (the system page size), default (empty, 4096)
    let (byte_size, page, first) = match t.below(8) {
        0 => {
            use vm_memory::bitmap::NewBitmap;
            // SAFETY: plain sysconf.
            let ps = unsafe { libc::sysconf(libc::_SC_PAGE_SIZE) } as usize;
            let bs = byte_size.saturating_mul(if t.flag() { ps / 8 } else { 1 }).min(1 << 22);
            note!(cx, "with_len({})", bs);
            cx.label("with_len");
            (bs, ps, AtomicBitmap::with_len(bs))
        }
        1 if byte_size % 5 == 0 => {
            note!(cx, "default()");
            cx.label("default_bitmap");
            (0, 4096, AtomicBitmap::default())
        }
        _ => {
            note!(cx, "new(byte_size {}, page {})", byte_size, page);
            (byte_size, page, AtomicBitmap::new(byte_size, NonZeroUsize::new(page).unwrap()))
        }
    };
    let mut bms: Vec<(Arc<AtomicBitmap>, Model)> = vec![(Arc::new(first), Model::new(byte_size, page))];
    ensure!(bms[0].0.len() == bms[0].1.pages && bms[0].0.byte_size() == byte_size, "fresh bitmap: len() = {}, byte_size() = {}; expected {} pages of {} for {} bytes", bms[0].0.len(), bms[0].0.byte_size(), bms[0].1.pages, page, byte_size);
    compare(&bms[0].0, &bms[0].1, "fresh bitmap")?;
    if byte_size % page != 0 {
        cx.label("size_not_page_multiple");
    }
    if bms[0].1.pages % 64 != 0 {
        cx.label("pages_not_word_multiple");
    }
    let nops = 1 + t.idx(40);
    let mut structural = false; // an enlarge/clone/slice happened
    for step in 0..nops {
        if t.exhausted() && step > 0 {
            break;
        }
        let bi = t.idx(bms.len());
        let op = t.below(14);
        match op {
            0 | 1 | 2 => {
                let (s, l) = gen_range(t, &bms[bi].1);
                let set = op != 2;
                note!(cx, "b{}.{}({:#x},{:#x})", bi, if set { "set_addr_range" } else { "reset_addr_range" }, s, l);
                classify_range(&bms[bi].1, s, l, cx);
                if set {
                    if op == 0 { bms[bi].0.set_addr_range(s, l) } else { bms[bi].0.mark_dirty(s, l) }
                } else {
                    bms[bi].0.reset_addr_range(s, l);
                }
                bms[bi].1.mark(s, l, set);
            }
            3 | 4 => {
                let pages = bms[bi].1.pages;
                let i = match t.below(4) {
                    0 => pages,
                    1 => pages.saturating_sub(1),
                    2 => t.size_near(pages as u64) as usize,
                    _ => t.idx(pages + 2),
                };
                let set = op == 3;
                note!(cx, "b{}.{}({})", bi, if set { "set_bit" } else { "reset_bit" }, i);
                if set { bms[bi].0.set_bit(i) } else { bms[bi].0.reset_bit(i) }
                bms[bi].1.bit(i, set);
                if i.saturating_add(1) >= pages {
                    cx.nt("bit_at_or_past_end");
                }
            }
            5 => {
                note!(cx, "b{}.get_and_reset()", bi);
                let words = bms[bi].0.get_and_reset();
                let m = &mut bms[bi].1;
                ensure!(words.len() == m.pages.div_ceil(64), "get_and_reset returned {} words for {} pages", words.len(), m.pages);
                for (wi, w) in words.iter().enumerate() {
                    for bit in 0..64 {
                        let idx = wi * 64 + bit;
                        let got = (w >> bit) & 1 == 1;
                        let want = m.set.contains(&idx);
                        ensure!(got == want, "get_and_reset reports page {} = {}, the model set says {} ({} pages)", idx, got, want, m.pages);
                    }
                }
                if !m.set.is_empty() {
                    cx.nt("harvest_nonempty");
                }
                m.set.clear();
            }
            6 => {
                note!(cx, "b{}.reset()", bi);
                bms[bi].0.reset();
                bms[bi].1.set.clear();
            }
            7 => {
                let page = bms[bi].1.page;
                let add = match t.below(8) {
                    0 => 0,
                    1 => 1,
                    2 => page - 1,
                    3 => page,
                    4 => page + 1,
                    5 => 64 * page,
                    6 => 63 * page + t.idx(2 * page + 1),
                    _ => t.idx(3 * page + 1),
                };
                if bms[bi].1.byte_size.checked_add(add).map(|x| x.div_ceil(page) > 20_000).unwrap_or(true) {
                    cx.count("excluded_enlarge_too_big", 1);
                    continue;
                }
                note!(cx, "b{}.enlarge({})", bi, add);
                match Arc::get_mut(&mut bms[bi].0) {
                    Some(b) => b.enlarge(add),
                    None => return Err("harness: bitmap Arc unexpectedly shared".into()),
                }
                let m = &mut bms[bi].1;
                m.byte_size += add;
                m.pages = m.byte_size.div_ceil(page);
                structural = true;
                cx.nt("enlarge");
            }
            8 => {
                if bms.len() < 4 {
                    note!(cx, "b{} = b{}.clone()", bms.len(), bi);
                    let c = (*bms[bi].0).clone();
                    let m = bms[bi].1.clone();
                    compare(&c, &m, "fresh clone")?;
                    bms.push((Arc::new(c), m));
                    structural = true;
                    cx.nt("clone");
                }
            }
            9 | 10 | 11 => {
                // operations through a (nested) slice: RefSlice or ArcSlice
                let total = bms[bi].1.pages * bms[bi].1.page;
                let depth = 1 + t.idx(3);
                let mut offs = Vec::new();
                for _ in 0..depth {
                    offs.push(match t.below(6) {
                        0 => 0,
                        5 => usize::MAX - t.idx(64),
                        _ => t.idx(total + 2),
                    });
                }
                let (s, l) = gen_range(t, &bms[bi].1);
                let arc_flavour = op == 11;
                note!(cx, "b{}.slice_at{:x?} [{}] mark_dirty({:#x},{:#x})", bi, offs, if arc_flavour { "ArcSlice" } else { "RefSlice" }, s, l);
                // composed base
                let mut base: Option<usize> = Some(0);
                for o in &offs {
                    base = base.and_then(|b| b.checked_add(*o));
                }
                let eff = base.and_then(|b| b.checked_add(s));
                let (got_dirty_probe, probe_addr);
                if arc_flavour {
                    let mut sl: ArcSlice<AtomicBitmap> = ArcSlice::new(bms[bi].0.clone(), offs[0]);
                    for o in &offs[1..] {
                        sl = sl.slice_at(*o);
                    }
                    sl.mark_dirty(s, l);
                    probe_addr = t.idx(total + 2);
                    got_dirty_probe = sl.dirty_at(probe_addr);
                } else {
                    let mut sl: RefSlice<'_, AtomicBitmap> = bms[bi].0.slice_at(offs[0]);
                    for o in &offs[1..] {
                        sl = sl.slice_at(*o);
                    }
                    sl.mark_dirty(s, l);
                    probe_addr = t.idx(total + 2);
                    got_dirty_probe = sl.dirty_at(probe_addr);
                }
                match eff {
                    Some(e) => {
                        classify_range(&bms[bi].1, e, l, cx);
                        bms[bi].1.mark(e, l, true);
                        if let Some(pa) = base.and_then(|b| b.checked_add(probe_addr)) {
                            let want = bms[bi].1.addr_set(pa);
                            ensure!(got_dirty_probe == want, "slice{:x?}.dirty_at({:#x}) = {}, model (address {:#x}) says {}", offs, probe_addr, got_dirty_probe, pa, want);
                        }
                        structural = true;
                        if offs.len() >= 2 {
                            cx.nt("nested_slice");
                        } else {
                            cx.nt("slice");
                        }
                    }
                    None => {
                        // wrapping offsets: BaseSlice uses wrapping_add by design; not compared.
                        cx.count("dontcare_wrapping_slice_offset", 1);
                        // resynchronise the model from the bitmap (is_bit_set sweep)
                        let (b, m) = &mut bms[bi];
                        m.set = (0..m.pages).filter(|i| b.is_bit_set(*i)).collect();
                    }
                }
            }
            12 => {
                // the trivial implementations
                let (s, l) = gen_range(t, &bms[bi].1);
                note!(cx, "()/None.mark_dirty({:#x},{:#x})", s, l);
                let u = ();
                u.mark_dirty(s, l);
                ensure!(!u.dirty_at(s), "().dirty_at is true");
                u.slice_at(s).mark_dirty(0, l);
                let n: Option<AtomicBitmap> = None;
                n.mark_dirty(s, l);
                ensure!(!n.dirty_at(s), "None.dirty_at is true");
                ensure!(n.slice_at(s).is_none(), "None.slice_at is Some");
            }
            _ => {
                // Option<AtomicBitmap>::Some behaves like the inner bitmap
                let (s, l) = gen_range(t, &bms[bi].1);
                note!(cx, "Some(b{}).mark_dirty({:#x},{:#x})", bi, s, l);
                let m = bms[bi].1.clone();
                let inner = AtomicBitmap::new(m.byte_size, NonZeroUsize::new(m.page).unwrap());
                let mut mm = Model::new(m.byte_size, m.page);
                let ob = Some(inner);
                ob.mark_dirty(s, l);
                mm.mark(s, l, true);
                let off = t.idx(m.pages * m.page + 1);
                if let Some(e) = off.checked_add(s) {
                    ob.slice_at(off).mark_dirty(s, l);
                    mm.mark(e, l, true);
                    let sl = ob.slice_at(off);
                    ensure!(sl.dirty_at(s) == mm.addr_set(e), "Some(bitmap).slice_at({}).dirty_at({:#x})", off, s);
                }
                compare(ob.as_ref().unwrap(), &mm, "Option<AtomicBitmap>::Some")?;
            }
        }
        for (i, (b, m)) in bms.iter().enumerate() {
            compare(b, m, &format!("after step {} bitmap b{}", step, i))?;
        }
    }
    if structural {
        cx.label("structural_op_then_query");
    }
    Ok(())
}

/// Exhaustive tiny domain: byte sizes 0..=10 x page sizes 1..=4 x start state {empty, full,
/// alternating} x {set, reset} x every range (start 0..=12 or within 3 of usize::MAX, length 0..=12).
fn run_tiny(t: &mut Tape, cx: &mut Cx) -> Result<(), String> {
    let byte_size = t.below(11) as usize;
    let page = 1 + t.below(4) as usize;
    let state = t.below(3);
    let set = t.below(2) == 0;
    let s_sel = t.below(17) as usize;
    let l = t.below(13) as usize;
    let s = if s_sel <= 12 { s_sel } else { usize::MAX - (16 - s_sel) };
    let b = AtomicBitmap::new(byte_size, NonZeroUsize::new(page).unwrap());
    let mut m = Model::new(byte_size, page);
    for i in 0..m.pages {
        if state == 1 || (state == 2 && i % 2 == 0) {
            b.set_bit(i);
            m.set.insert(i);
        }
    }
    note!(cx, "new({}, page {}) state {} then {}({:#x}, {})", byte_size, page, state, if set { "set_addr_range" } else { "reset_addr_range" }, s, l);
    cx.nt("tiny_domain");
    if set { b.set_addr_range(s, l) } else { b.reset_addr_range(s, l) }
    m.mark(s, l, set);
    compare(&b, &m, "tiny")?;
    let words = b.get_and_reset();
    ensure!(words.len() == m.pages.div_ceil(64), "get_and_reset word count");
    for (wi, w) in words.iter().enumerate() {
        for bit in 0..64 {
            ensure!(((w >> bit) & 1 == 1) == m.set.contains(&(wi * 64 + bit)), "get_and_reset reports page {} wrongly", wi * 64 + bit);
        }
    }
    Ok(())
}

fn gen_tiny(_t: Tier) -> Box<dyn Iterator<Item = Vec<u64>>> {
    Box::new((0..11u64).flat_map(|bs| {
        (0..4u64).flat_map(move |p| (0..3u64).flat_map(move |st| (0..2u64).flat_map(move |op| (0..17u64).flat_map(move |s| (0..13u64).map(move |l| vec![bs, p, st, op, s, l])))))
    }))
}

/// Page sizes at the top of the range (a bitmap then has 0..4 pages whatever its byte size):
/// the page-count and page-index arithmetic must not overflow.
fn run_huge(t: &mut Tape, cx: &mut Cx) -> Result<(), String> {
    const H: usize = 1 << 63;
    let page = t.pick(&[usize::MAX, usize::MAX - 1, H, H + 1, H - 1, usize::MAX / 2, usize::MAX / 3, 1usize << 62]);
    let byte_size = match t.below(9) {
        0 => 0,
        1 => 1,
        2 => 2,
        3 => 4096,
        4 => page - 1,
        5 => page,
        6 => page.saturating_add(1),
        7 => usize::MAX,
        _ => H + 5,
    };
    note!(cx, "new(byte_size {:#x}, page {:#x})", byte_size, page);
    cx.nt("huge_page_size");
    let mut b = AtomicBitmap::new(byte_size, NonZeroUsize::new(page).unwrap());
    let mut m = Model::new(byte_size, page);
    m.pages = ((byte_size as u128 + page as u128 - 1) / page as u128) as usize;
    compare(&b, &m, "fresh bitmap")?;
    for step in 0..(1 + t.idx(8)) {
        if t.exhausted() && step > 0 {
            break;
        }
        match t.below(6) {
            0 | 1 | 2 => {
                let s = t.pick(&[0usize, 1, page - 1, page, page.saturating_add(1), usize::MAX - 1, usize::MAX, byte_size.saturating_sub(1), byte_size]);
                let l = t.pick(&[0usize, 1, 2, page, usize::MAX, page - 1]);
                let set = t.flag();
                note!(cx, "{}({:#x},{:#x})", if set { "mark_dirty" } else { "reset_addr_range" }, s, l);
                if set {
                    if t.flag() { b.mark_dirty(s, l) } else { b.set_addr_range(s, l) }
                } else {
                    b.reset_addr_range(s, l);
                }
                m.mark(s, l, set);
            }
            3 => {
                let i = t.pick(&[0usize, 1, 2, 3, usize::MAX]);
                let set = t.flag();
                note!(cx, "{}({:#x})", if set { "set_bit" } else { "reset_bit" }, i);
                if set { b.set_bit(i) } else { b.reset_bit(i) }
                m.bit(i, set);
            }
            4 => {
                let add = t.pick(&[0usize, 1, page - 1, page, 4096]);
                if let Some(nb) = m.byte_size.checked_add(add) {
                    note!(cx, "enlarge({:#x})", add);
                    b.enlarge(add);
                    m.byte_size = nb;
                    m.pages = ((nb as u128 + page as u128 - 1) / page as u128) as usize;
                    cx.nt("enlarge");
                }
            }
            _ => {
                note!(cx, "clone / get_and_reset");
                let c = b.clone();
                compare(&c, &m, "clone")?;
                let words = b.get_and_reset();
                ensure!(words.len() == m.pages.div_ceil(64), "get_and_reset returned {} words for {} pages", words.len(), m.pages);
                for p in 0..64usize.min(words.len() * 64) {
                    let got = words[p / 64] >> (p % 64) & 1 == 1;
                    ensure!(got == m.set.contains(&p), "get_and_reset reports page {} as {}, model {}", p, got, m.set.contains(&p));
                }
                m.set.clear();
            }
        }
        compare(&b, &m, &format!("after step {}", step))?;
    }
    Ok(())
}

pub fn property() -> Property {
    Property {
        id: "C09",
        rule: "a case = (byte size, page size) from {0, 1, k*page+-delta, 63/64/65/127/128/129 pages +- delta} x {1,2,3,7,64,100,128,4096, random, larger than the byte size; a separate sub-check uses page sizes around 2^62, 2^63 and usize::MAX with byte sizes up to usize::MAX} + a history of 1..40 operations (set/reset_addr_range, mark_dirty, set/reset_bit, get_and_reset, reset, enlarge, clone then ops on either copy, RefSlice/ArcSlice slice_at nested up to 3 deep with marks and queries through the slice, (), None, Some(bitmap)); after every step every bitmap is compared with its set model over all indices < pages+70 and at page-first/last addresses; non-trivial = a range spanning >=2 pages / crossing a 64-page word / running past the end / overflowing usize, a bit at or past the end, a non-empty harvest, an enlarge, a clone or a (nested) slice; distinct = decoded (dimensions, history)",
        assumptions: &["enlarge sizes are VMM-chosen: sums overflowing usize or exceeding 20000 pages are excluded (counted)", "slice offsets whose sum wraps are not compared (BaseSlice documents wrapping arithmetic); the model is re-synchronised and the event counted"],
        subchecks: vec![
            SubCheck { name: "tiny_domain", builds: &[Build::Std], kind: Kind::Exhaustive { gen: gen_tiny }, run: run_tiny },
            SubCheck { name: "history", builds: &[Build::Std], kind: Kind::Random { quick: 40_000, thorough: 2_000_000, max_words: 220 }, run },
            SubCheck { name: "huge_pages", builds: &[Build::Std], kind: Kind::Random { quick: 2_000, thorough: 100_000, max_words: 60 }, run: run_huge }
        ],
    }
}
