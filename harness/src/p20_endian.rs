//! C20 – endian wrappers keep their declared byte order for every value.

use crate::engine::*;
use crate::tape::Tape;
use crate::{ensure, note};
use std::mem::{align_of, size_of};
use vm_memory::{Be16, Be32, Be64, BeSize, ByteValued, Bytes, GuestAddress, GuestMemory, GuestMemoryRegion, Le16, Le32, Le64, LeSize, VolatileSlice};

thread_local! {
    /// two adjacent 64-byte regions
    static TWO: Result<vm_memory::GuestMemoryMmap<()>, String> = crate::common::build_mmap(&crate::common::Layout { regs: vec![(0x1000, 64), (0x1040, 64)] });
}

macro_rules! endian_fn {
    ($name:ident, $W:ty, $N:ty, $to_bytes:ident, $from_bytes:ident, $wname:expr) => {
        #[inline]
        fn $name(v: $N, extra: $N, mem: bool) -> Result<(), String> {
            let w = <$W>::from(v);
            ensure!(w.to_native() == v, "{}: from({:#x}).to_native() = {:#x}", $wname, v, w.to_native());
            let back: $N = w.into();
            ensure!(back == v, "{}: native::from(W::from({:#x})) = {:#x}", $wname, v, back);
            let wire = v.$to_bytes();
            ensure!(w.as_slice() == &wire[..], "{}: bytes of {:#x} are {:x?}, declared order gives {:x?}", $wname, v, w.as_slice(), wire);
            {
                // the object's own stream helpers carry the same wire bytes
                let mut out: Vec<u8> = Vec::new();
                w.write_all_to(&mut out).map_err(|e| format!("{}: write_all_to: {}", $wname, e))?;
                ensure!(out[..] == wire[..], "{}: write_all_to of {:#x} emitted {:x?}, declared order gives {:x?}", $wname, v, out, wire);
                let back = <$W>::read_exact_from(&wire[..]).map_err(|e| format!("{}: read_exact_from: {}", $wname, e))?;
                ensure!(back.to_native() == v, "{}: read_exact_from of the wire bytes {:x?} gives {:#x}", $wname, wire, back.to_native());
                let mut copy = <$W>::zeroed();
                copy.as_mut_slice().copy_from_slice(&wire[..]);
                ensure!(copy.to_native() == v, "{}: the wire bytes {:x?} placed into a wrapper read as {:#x}", $wname, wire, copy.to_native());
            }
            {
                // an explicit clone is the same value with the same bytes
                #[allow(clippy::clone_on_copy)]
                let c = Clone::clone(&w);
                ensure!(c.to_native() == v && c.as_slice() == &wire[..] && c == w, "{}: a clone of W::from({:#x}) holds {:#x} / bytes {:x?}", $wname, v, c.to_native(), c.as_slice());
                let copied = [w; 2].iter().cloned().collect::<Vec<_>>();
                ensure!(copied[1].to_native() == v, "{}: iter().cloned() of W::from({:#x}) gives {:#x}", $wname, v, copied[1].to_native());
            }
            ensure!(w == v, "{}: W::from({:#x}) == {:#x} is false", $wname, v, v);
            ensure!(v == w, "{}: {:#x} == W::from({:#x}) is false", $wname, v, v);
            ensure!(w == <$W>::from(v), "{}: W == W reflexive", $wname);
            // the `!=` operators (overridable separately from `==`) agree with `==`
            ensure!(!(w != v), "{}: W::from({:#x}) != {:#x} is true", $wname, v, v);
            ensure!(!(v != w), "{}: {:#x} != W::from({:#x}) is true", $wname, v, v);
            ensure!(!(w != <$W>::from(v)), "{}: W != W for the same value {:#x}", $wname, v);
            for u in [v.swap_bytes(), v.wrapping_add(1), v.wrapping_sub(1), !v, extra] {
                if u != v {
                    ensure!(!(w == u), "{}: W::from({:#x}) == {:#x} is true", $wname, v, u);
                    ensure!(!(u == w), "{}: {:#x} == W::from({:#x}) is true", $wname, u, v);
                    ensure!(w != u, "{}: W::from({:#x}) != {:#x} is false", $wname, v, u);
                    ensure!(u != w, "{}: {:#x} != W::from({:#x}) is false", $wname, u, v);
                    ensure!(w != <$W>::from(u), "{}: W::from({:#x}) == W::from({:#x})", $wname, v, u);
                }
            }
            if mem {
                ensure!(size_of::<$W>() == size_of::<$N>(), "{}: size {}", $wname, size_of::<$W>());
                ensure!(align_of::<$W>() == align_of::<$N>(), "{}: align {}", $wname, align_of::<$W>());
                ensure!(<$W>::default().to_native() == 0, "{}: default", $wname);
                // store into "guest memory" and look at the raw bytes; read raw wire bytes back
                let mut buf = [0xA5u8; 32];
                for off in [8usize, 9] {
                    {
                        let vs = VolatileSlice::from(&mut buf[..]);
                        vs.write_obj(w, off).map_err(|e| format!("{}: write_obj: {:?}", $wname, e))?;
                    }
                    let n = size_of::<$N>();
                    ensure!(&buf[off..off + n] == &wire[..], "{}: memory after write_obj({:#x}) = {:x?}, want {:x?}", $wname, v, &buf[off..off + n], wire);
                    ensure!(buf[..off].iter().all(|b| *b == 0xA5) && buf[off + n..].iter().all(|b| *b == 0xA5), "{}: write_obj touched bytes outside the object", $wname);
                    let r: $W = {
                        let vs = VolatileSlice::from(&mut buf[..]);
                        vs.read_obj(off).map_err(|e| format!("{}: read_obj: {:?}", $wname, e))?
                    };
                    ensure!(r.to_native() == <$N>::$from_bytes(wire), "{}: read_obj of wire bytes {:x?} gives {:#x}", $wname, wire, r.to_native());
                    buf = [0xA5u8; 32];
                }
                // the same through guest memory, with the object straddling two adjacent regions
                let n = size_of::<$N>();
                TWO.with(|gm| -> Result<(), String> {
                    let gm = gm.as_ref().map_err(|e| format!("HARNESS-PANIC: {}", e))?;
                    let (p0, p1) = {
                        let mut it = gm.iter();
                        (it.next().unwrap().as_ptr(), it.next().unwrap().as_ptr())
                    };
                    for k in 1..n {
                        let a = GuestAddress(0x1000 + 64 - k as u64);
                        gm.write_obj(w, a).map_err(|e| format!("{}: guest write_obj across regions: {:?}", $wname, e))?;
                        // SAFETY: inside the two 64-byte regions.
                        let raw: Vec<u8> = (0..n).map(|i| unsafe { if i < k { p0.add(64 - k + i).read_volatile() } else { p1.add(i - k).read_volatile() } }).collect();
                        ensure!(raw[..] == wire[..], "{}: {:#x} stored {} bytes before a region boundary reads {:x?} in memory, declared order gives {:x?}", $wname, v, k, raw, wire);
                        let r: $W = gm.read_obj(a).map_err(|e| format!("{}: guest read_obj across regions: {:?}", $wname, e))?;
                        ensure!(r.to_native() == v, "{}: {:#x} stored across a region boundary reads back as {:#x}", $wname, v, r.to_native());
                    }
                    Ok(())
                })?;
            }
            Ok(())
        }
    };
}

endian_fn!(chk_le16, Le16, u16, to_le_bytes, from_le_bytes, "Le16");
endian_fn!(chk_be16, Be16, u16, to_be_bytes, from_be_bytes, "Be16");
endian_fn!(chk_le32, Le32, u32, to_le_bytes, from_le_bytes, "Le32");
endian_fn!(chk_be32, Be32, u32, to_be_bytes, from_be_bytes, "Be32");
endian_fn!(chk_le64, Le64, u64, to_le_bytes, from_le_bytes, "Le64");
endian_fn!(chk_be64, Be64, u64, to_be_bytes, from_be_bytes, "Be64");
endian_fn!(chk_lesize, LeSize, usize, to_le_bytes, from_le_bytes, "LeSize");
endian_fn!(chk_besize, BeSize, usize, to_be_bytes, from_be_bytes, "BeSize");

const NAMES: [&str; 8] = ["Le16", "Be16", "Le32", "Be32", "Le64", "Be64", "LeSize", "BeSize"];

fn dispatch(ty: u64, v: u64, extra: u64, mem: bool) -> Result<bool, String> {
    // returns whether the value is non-trivial (byte-swapped form differs)
    match ty {
        0 => chk_le16(v as u16, extra as u16, mem).map(|_| (v as u16).swap_bytes() != v as u16),
        1 => chk_be16(v as u16, extra as u16, mem).map(|_| (v as u16).swap_bytes() != v as u16),
        2 => chk_le32(v as u32, extra as u32, mem).map(|_| (v as u32).swap_bytes() != v as u32),
        3 => chk_be32(v as u32, extra as u32, mem).map(|_| (v as u32).swap_bytes() != v as u32),
        4 => chk_le64(v, extra, mem).map(|_| v.swap_bytes() != v),
        5 => chk_be64(v, extra, mem).map(|_| v.swap_bytes() != v),
        6 => chk_lesize(v as usize, extra as usize, mem).map(|_| v.swap_bytes() != v),
        _ => chk_besize(v as usize, extra as usize, mem).map(|_| v.swap_bytes() != v),
    }
}

fn run(t: &mut Tape, cx: &mut Cx) -> Result<(), String> {
    let ty = t.below(8);
    let v = t.word();
    let extra = t.word();
    cx.label(NAMES[ty as usize]);
    note!(cx, "{}::from({:#x}), other={:#x}", NAMES[ty as usize], v, extra);
    let nt = dispatch(ty, v, extra, true)?;
    if nt {
        cx.nt("swap_differs");
    } else {
        cx.label("palindromic");
    }
    Ok(())
}

/// One case = a block of 65536 consecutive 32-bit values (thorough: all 2^32 values).
fn run_block32(t: &mut Tape, cx: &mut Cx) -> Result<(), String> {
    let ty = 2 + t.below(2);
    let block = t.below(65536);
    cx.label(NAMES[ty as usize]);
    note!(cx, "{} block {:#06x}0000..={:#06x}ffff", NAMES[ty as usize], block, block);
    let mut nt = 0u64;
    for lo in 0..65536u64 {
        let v = (block << 16) | lo;
        if dispatch(ty, v, v.rotate_left(13) ^ 0x5a5a, false)? {
            nt += 1;
        }
    }
    cx.count("values_checked", 65536);
    cx.count("values_nontrivial", nt);
    cx.nt("block32");
    Ok(())
}

fn gen16(_t: Tier) -> Box<dyn Iterator<Item = Vec<u64>>> {
    Box::new((0..2u64).flat_map(|ty| (0..65536u64).map(move |v| vec![ty, v, v ^ 0x1234])))
}

fn structured64() -> Vec<u64> {
    let mut v = vec![0u64, u64::MAX, 0x0102030405060708, 0x0807060504030201, 0x00000000ffffffff, 0xffffffff00000000, 0x0100000000000001, 0x8000000000000000, 1];
    for pos in 0..8 {
        for b in 1..=255u64 {
            v.push(b << (pos * 8));
        }
    }
    for pos in 0..7 {
        v.push(0x0102u64 << (pos * 8));
    }
    // palindromes
    for b in [0x11u64, 0xab, 0xff] {
        let mut p = 0u64;
        for i in 0..8 {
            p |= b << (i * 8);
        }
        v.push(p);
    }
    v.push(0x1122334444332211);
    v
}

fn gen_structured(_t: Tier) -> Box<dyn Iterator<Item = Vec<u64>>> {
    let vals = structured64();
    Box::new((2..8u64).flat_map(move |ty| {
        vals.clone().into_iter().map(move |v| vec![ty, v, v.rotate_left(8)])
    }))
}

fn gen_blocks(tier: Tier) -> Box<dyn Iterator<Item = Vec<u64>>> {
    match tier {
        // quick: 64 blocks spread over the range, both types
        Tier::Quick => Box::new((0..2u64).flat_map(|ty| (0..64u64).map(move |i| vec![ty, i * 1024 + (i % 7)]))),
        Tier::Thorough => Box::new((0..2u64).flat_map(|ty| (0..65536u64).map(move |b| vec![ty, b]))),
    }
}

pub fn property() -> Property {
    Property {
        id: "C20",
        rule: "values: all 2^16 values for Le16/Be16 (exhaustive), structured byte patterns for the wider types (exhaustive list), blocks of 65536 consecutive 32-bit values (thorough: all 2^32 for Le32/Be32, counter values_checked), random 64-bit words for all eight types; non-trivial = the byte-swapped value differs from the value (a wrong byte order is observable); distinct = (type, value, comparison operand)",
        assumptions: &["oracle: to_le_bytes/to_be_bytes/from_*_bytes of the native integer types", "block sweeps count one evaluation per 65536-value block; per-value totals are in counters.values_checked"],
        subchecks: vec![
            SubCheck { name: "all16", builds: &[Build::Std], kind: Kind::Exhaustive { gen: gen16 }, run },
            SubCheck { name: "structured", builds: &[Build::Std], kind: Kind::Exhaustive { gen: gen_structured }, run },
            SubCheck { name: "blocks32", builds: &[Build::Std], kind: Kind::Exhaustive { gen: gen_blocks }, run: run_block32 },
            SubCheck { name: "random", builds: &[Build::Std], kind: Kind::Random { quick: 400_000, thorough: 30_000_000, max_words: 4 }, run },
        ],
    }
}
