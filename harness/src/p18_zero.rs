//! C18 – zero-length accesses are successful no-ops at every layer.
//! Domain: entry point x layer x address class x container, enumerated completely.
//! Oracle: the call returns Ok(0)/Ok(()) (element copies: returns without panicking, a count
//! <= buf.len()), no panic, all guest bytes and all bitmap bits unchanged, no Xen window live.

use crate::common::*;
use crate::engine::*;
use crate::tape::Tape;
use crate::{ensure, note};
use vm_memory::bitmap::AtomicBitmap;
use vm_memory::{Bytes, GuestAddress, GuestMemory, GuestMemoryMmap, GuestMemoryRegion, MemoryRegionAddress, VolatileMemory, VolatileSlice};

const NENTRY: u64 = 10;
const ENTRY: [&str; NENTRY as usize] = [
    "write(&[])", "read(&mut [])", "write_slice(&[])", "read_slice(&mut [])", "write_obj::<[u8;0]>", "read_obj::<[u64;0]>",
    "read_volatile_from(count 0)", "read_exact_volatile_from(count 0)", "write_volatile_to(count 0)", "write_all_volatile_to(count 0)",
];

/// Run one zero-length entry point on any `Bytes<A>`; `valid` = the address is valid for a
/// non-empty access (stream forms are only required to succeed there).
fn zero_call<A: Copy + std::fmt::Debug, M: Bytes<A>>(m: &M, entry: u64, addr: A, valid: bool, what: &str) -> Result<(), String>
where
    M::E: std::fmt::Debug,
{
    for variant in 0..6u64 {
        zero_call_v(m, entry, addr, valid, variant, what)?;
        if entry < 6 {
            break;
        }
    }
    Ok(())
}

/// `variant` selects the stream object for the stream forms: sources {non-empty &[u8], empty
/// &[u8], Cursor at its end, empty File, Cursor beyond its end, connected socket with nothing pending}; sinks {Vec, full (zero-capacity)
/// &mut [u8], &mut [u8] with room, Cursor<&mut [u8]> at its end / beyond its end}.
fn zero_call_v<A: Copy + std::fmt::Debug, M: Bytes<A>>(m: &M, entry: u64, addr: A, valid: bool, variant: u64, what: &str) -> Result<(), String>
where
    M::E: std::fmt::Debug,
{
    let what = &format!("{} [stream variant {}]", what, variant);
    let r: Result<usize, M::E> = match entry {
        0 => m.write(&[], addr),
        1 => m.read(&mut [], addr),
        2 => m.write_slice(&[], addr).map(|_| 0),
        3 => m.read_slice(&mut [], addr).map(|_| 0),
        4 => m.write_obj::<[u8; 0]>([], addr).map(|_| 0),
        5 => m.read_obj::<[u64; 0]>(addr).map(|_| 0),
        6 | 7 => {
            let data = [1u8, 2, 3];
            let exact = entry == 7;
            match variant {
                0 | 1 => {
                    let mut src: &[u8] = if variant == 0 { &data } else { &[] };
                    let before = src.len();
                    let r = if exact { m.read_exact_volatile_from(addr, &mut src, 0).map(|_| 0) } else { m.read_volatile_from(addr, &mut src, 0) };
                    if src.len() != before {
                        return Err(format!("{}: a zero-count transfer consumed {} source bytes", what, before - src.len()));
                    }
                    r
                }
                2 | 4 => {
                    // a cursor at its end / positioned beyond its data
                    let p0 = if variant == 2 { 3 } else { 5 };
                    let mut c = std::io::Cursor::new(&data[..]);
                    c.set_position(p0);
                    let r = if exact { m.read_exact_volatile_from(addr, &mut c, 0).map(|_| 0) } else { m.read_volatile_from(addr, &mut c, 0) };
                    if c.position() != p0 {
                        return Err(format!("{}: a zero-count transfer moved the cursor to {}", what, c.position()));
                    }
                    r
                }
                5 => {
                    // a connected socket with nothing pending (non-blocking, so that a transfer
                    // that waits for data shows up as an error instead of hanging)
                    let (mut a, _b) = std::os::unix::net::UnixStream::pair().map_err(|e| format!("HARNESS-PANIC: socketpair: {}", e))?;
                    a.set_nonblocking(true).map_err(|e| format!("HARNESS-PANIC: {}", e))?;
                    if exact { m.read_exact_volatile_from(addr, &mut a, 0).map(|_| 0) } else { m.read_volatile_from(addr, &mut a, 0) }
                }
                _ => {
                    let mut f = memfd(0);
                    if exact { m.read_exact_volatile_from(addr, &mut f, 0).map(|_| 0) } else { m.read_volatile_from(addr, &mut f, 0) }
                }
            }
        }
        _ => {
            let all = entry == 9;
            match variant {
                0 => {
                    let mut v: Vec<u8> = Vec::new();
                    let r = if all { m.write_all_volatile_to(addr, &mut v, 0).map(|_| 0) } else { m.write_volatile_to(addr, &mut v, 0) };
                    if !v.is_empty() {
                        return Err(format!("{}: a zero-count transfer delivered {} bytes", what, v.len()));
                    }
                    r
                }
                1 | 2 => {
                    // a sink that is already full (no capacity left) / one with room
                    let mut store = [0x11u8; 4];
                    let cap = if variant == 1 { 0 } else { 4 };
                    let r;
                    {
                        let mut s: &mut [u8] = &mut store[..cap];
                        r = if all { m.write_all_volatile_to(addr, &mut s, 0).map(|_| 0) } else { m.write_volatile_to(addr, &mut s, 0) };
                        if s.len() != cap {
                            return Err(format!("{}: a zero-count transfer advanced the sink by {}", what, cap - s.len()));
                        }
                    }
                    if store != [0x11u8; 4] {
                        return Err(format!("{}: a zero-count transfer wrote into the sink", what));
                    }
                    r
                }
                5 => {
                    let (mut a, _b) = std::os::unix::net::UnixStream::pair().map_err(|e| format!("HARNESS-PANIC: socketpair: {}", e))?;
                    a.set_nonblocking(true).map_err(|e| format!("HARNESS-PANIC: {}", e))?;
                    if all { m.write_all_volatile_to(addr, &mut a, 0).map(|_| 0) } else { m.write_volatile_to(addr, &mut a, 0) }
                }
                _ => {
                    let p0 = if variant == 3 { 4 } else { 9 };
                    let mut store = [0x11u8; 4];
                    let mut c = std::io::Cursor::new(&mut store[..]);
                    c.set_position(p0);
                    let r = if all { m.write_all_volatile_to(addr, &mut c, 0).map(|_| 0) } else { m.write_volatile_to(addr, &mut c, 0) };
                    if c.position() != p0 {
                        return Err(format!("{}: a zero-count transfer moved the cursor", what));
                    }
                    r
                }
            }
        }
    };
    let stream = entry >= 6;
    match r {
        Ok(0) => Ok(()),
        Ok(n) => Err(format!("{}: returned Ok({}) for an access that names no bytes", what, n)),
        Err(e) => {
            if stream && !valid {
                // stream forms are only required to succeed where a non-empty access is valid
                Ok(())
            } else {
                Err(format!("{}: an access that names no bytes failed with {:?}", what, e))
            }
        }
    }
}

struct Snap {
    bytes: Vec<Vec<u8>>,
    bits: Vec<Vec<bool>>,
}

#[cfg(not(feature = "xen"))]
mod world {
    use super::*;
    use std::num::NonZeroUsize;
    use vm_memory::mmap::MmapRegionBuilder;
    use vm_memory::GuestRegionMmap;

    pub struct World {
        pub mem: GuestMemoryMmap<AtomicBitmap>,
        pub layout: Layout,
        pub kinds: Vec<&'static str>,
    }

    pub fn build() -> Result<World, String> {
        let layout = Layout { regs: vec![(0x1000, 16), (0x1010, 8), (0x2000, 4)] };
        let mut regs = Vec::new();
        for &(s, l) in &layout.regs {
            let r = MmapRegionBuilder::new_with_bitmap(l as usize, AtomicBitmap::new(l as usize, NonZeroUsize::new(4).unwrap()))
                .with_mmap_prot(libc::PROT_READ | libc::PROT_WRITE)
                .with_mmap_flags(libc::MAP_ANONYMOUS | libc::MAP_PRIVATE)
                .build()
                .map_err(|e| format!("{:?}", e))?;
            regs.push(GuestRegionMmap::new(r, GuestAddress(s)).map_err(|e| format!("{:?}", e))?);
        }
        let mem = GuestMemoryMmap::from_regions(regs).map_err(|e| format!("{:?}", e))?;
        for r in mem.iter() {
            // SAFETY: inside the fresh mapping.
            unsafe { std::ptr::write_bytes(r.as_ptr(), 0x6B, r.len() as usize) };
        }
        Ok(World { mem, layout, kinds: vec!["anonymous"; 3] })
    }

    impl World {
        pub fn snapshot(&self) -> Snap {
            Snap {
                // SAFETY: inside the mappings.
                bytes: self.mem.iter().map(|r| (0..r.len() as usize).map(|i| unsafe { r.as_ptr().add(i).read_volatile() }).collect()).collect(),
                bits: self.mem.iter().map(|r| (0..r.bitmap().len() + 2).map(|i| r.bitmap().is_bit_set(i)).collect()).collect(),
            }
        }
        pub fn windows_ok(&self) -> Result<(), String> {
            Ok(())
        }
    }
}

#[cfg(feature = "xen")]
mod world {
    use super::*;
    use crate::xen_emul::{build as xbuild, live, reset, Kind, XenRegion};
    use std::sync::Arc;

    pub struct World {
        pub mem: GuestMemoryMmap<AtomicBitmap>,
        pub layout: Layout,
        pub kinds: Vec<&'static str>,
        backing: Vec<(Option<(std::fs::File, u64)>, usize, usize)>,
    }

    pub fn build() -> Result<World, String> {
        reset();
        // page-granular guest bases (grant references are pages); sizes are small
        let layout = Layout { regs: vec![(0x1000, 16), (0x2000, 8), (0x4000, 4)] };
        let kinds = [Kind::UnixAnon, Kind::GrantAdvance, Kind::GrantOnDemand];
        let mut regs = Vec::new();
        let mut backing = Vec::new();
        for (i, &(s, l)) in layout.regs.iter().enumerate() {
            let xr: XenRegion<AtomicBitmap> = xbuild(kinds[i], s, l as usize)?;
            xr.raw_write(&vec![0x6B; l as usize]);
            let host = if kinds[i] == Kind::GrantOnDemand { 0 } else { xr.region.as_ptr() as usize };
            backing.push((xr.file.as_ref().map(|(f, o)| (f.try_clone().unwrap(), *o)), host, l as usize));
            regs.push(Arc::new(xr.region));
        }
        let mem = GuestMemoryMmap::from_arc_regions(regs).map_err(|e| format!("{:?}", e))?;
        Ok(World { mem, layout, kinds: vec!["xen-unix", "xen-grant-advance", "xen-grant-on-demand"], backing })
    }

    impl World {
        pub fn snapshot(&self) -> Snap {
            Snap {
                bytes: self
                    .backing
                    .iter()
                    .map(|(f, host, len)| match f {
                        Some((f, off)) => pread_all(f, *off, *len),
                        // SAFETY: unix mapping.
                        None => (0..*len).map(|i| unsafe { ((*host + i) as *const u8).read_volatile() }).collect(),
                    })
                    .collect(),
                bits: self.mem.iter().map(|r| (0..r.bitmap().len() + 2).map(|i| r.bitmap().is_bit_set(i)).collect()).collect(),
            }
        }
        pub fn windows_ok(&self) -> Result<(), String> {
            // the advance-mapped grant region holds exactly one permanent window
            let lv = live();
            ensure!(lv.len() == 1, "temporary Xen windows remain mapped after a zero-length access: {:x?}", lv);
            Ok(())
        }
    }
}

use world::World;

thread_local! {
    static WORLD: Result<World, String> = world::build();
}

fn guest_addr_classes(lay: &Layout) -> Vec<(u64, &'static str, bool)> {
    let mut v = Vec::new();
    for (i, &(s, l)) in lay.regs.iter().enumerate() {
        let _ = i;
        v.push((s + l / 2, "mapped interior", true));
        v.push((s, "first byte of a region", true));
        v.push((s + l - 1, "last byte of a region", true));
        let past = s + l;
        let mapped = lay.find(past).is_some();
        v.push((past, if mapped { "one past a region (start of the adjacent one)" } else { "one past a region (hole)" }, mapped));
    }
    v.push((0x1800, "in a hole", lay.find(0x1800).is_some()));
    v.push((0, "address 0", false));
    v.push((u64::MAX, "u64::MAX", false));
    v.push((1 << 63, "2^63", false));
    v
}

fn run_guest(t: &mut Tape, cx: &mut Cx) -> Result<(), String> {
    let entry = t.below(NENTRY);
    WORLD.with(|w| {
        let w = w.as_ref().map_err(|e| format!("HARNESS-PANIC: world: {}", e))?;
        let classes = guest_addr_classes(&w.layout);
        let (a, cname, valid) = classes[t.idx(classes.len())];
        let what = format!("guest-level {} at {:#x} ({})", ENTRY[entry as usize], a, cname);
        note!(cx, "{}", what);
        cx.nt(if valid { "guest_mapped_address" } else { "guest_unmapped_address" });
        if let Some(i) = w.layout.find(a) {
            cx.label(w.kinds[i]);
        }
        let before = w.snapshot();
        zero_call(&w.mem, entry, GuestAddress(a), valid, &what)?;
        let after = w.snapshot();
        ensure!(after.bytes == before.bytes, "{}: guest memory changed", what);
        ensure!(after.bits == before.bits, "{}: the access marked pages dirty", what);
        w.windows_ok()
    })
}

fn gen_guest(_t: Tier) -> Box<dyn Iterator<Item = Vec<u64>>> {
    Box::new((0..NENTRY).flat_map(|e| (0..16u64).map(move |c| vec![e, c])))
}

fn run_region(t: &mut Tape, cx: &mut Cx) -> Result<(), String> {
    let entry = t.below(NENTRY);
    let ri = t.idx(3);
    WORLD.with(|w| {
        let w = w.as_ref().map_err(|e| format!("HARNESS-PANIC: world: {}", e))?;
        let r = w.mem.iter().nth(ri).unwrap();
        let l = r.len();
        let classes: [(u64, &str, bool); 7] = [(l / 2, "interior", true), (0, "offset 0", true), (l - 1, "last byte", true), (l, "one past the end", false), (l + 5, "beyond the end", false), (u64::MAX, "u64::MAX", false), (1 << 32, "2^32", false)];
        let (o, cname, valid) = classes[t.idx(classes.len())];
        let what = format!("region-level ({}) {} at offset {:#x} ({})", w.kinds[ri], ENTRY[entry as usize], o, cname);
        note!(cx, "{}", what);
        cx.nt(if valid { "region_valid_offset" } else { "region_invalid_offset" });
        cx.label(w.kinds[ri]);
        let before = w.snapshot();
        zero_call(r, entry, MemoryRegionAddress(o), valid, &what)?;
        // the same through the region-wide slice and an empty sub-slice
        let vs = r.as_volatile_slice().map_err(|e| format!("{:?}", e))?;
        zero_call(&vs, entry, o as usize, valid, &format!("slice of {}", what))?;
        let empty = vs.subslice((l / 2) as usize, 0).map_err(|e| format!("{:?}", e))?;
        zero_call(&empty, entry, (o as usize).min(3), false, &format!("empty sub-slice of {}", what))?;
        let after = w.snapshot();
        ensure!(after.bytes == before.bytes, "{}: guest memory changed", what);
        ensure!(after.bits == before.bits, "{}: the access marked pages dirty", what);
        w.windows_ok()
    })
}

fn gen_region(_t: Tier) -> Box<dyn Iterator<Item = Vec<u64>>> {
    Box::new((0..NENTRY).flat_map(|e| (0..3u64).flat_map(move |r| (0..7u64).map(move |c| vec![e, r, c]))))
}

/// Plain slices (any alignment, also empty containers) and the default-method mock.
fn run_slice(t: &mut Tape, cx: &mut Cx) -> Result<(), String> {
    let entry = t.below(NENTRY);
    let len = t.pick(&[0usize, 1, 8, 33]);
    let fr = Framed::new(len, t.idx(16));
    let s = fr.slice();
    let classes: [(usize, &str); 6] = [(len / 2, "interior"), (len.saturating_sub(1), "last byte"), (len, "one past the end"), (len + 3, "beyond the end"), (usize::MAX, "usize::MAX"), (0, "offset 0")];
    let (o, cname) = classes[t.idx(classes.len())];
    let valid = o < len;
    let what = format!("slice({} bytes) {} at offset {:#x} ({})", len, ENTRY[entry as usize], o, cname);
    note!(cx, "{}", what);
    cx.nt(if len == 0 { "empty_container" } else if valid { "slice_valid_offset" } else { "slice_invalid_offset" });
    let before = fr.contents();
    zero_call(&s, entry, o, valid, &what)?;
    ensure!(fr.contents() == before, "{}: memory changed", what);
    fr.canaries_ok()?;
    // mock guest memory relying on the default methods
    let lay = Layout { regs: vec![(0, 4), (u64::MAX - 3, 4)] };
    let m = MockMem::new(&lay);
    for (a, v) in [(2u64, true), (4, false), (u64::MAX, true), (u64::MAX - 4, false), (1 << 40, false)] {
        zero_call(&m, entry, GuestAddress(a), v, &format!("mock guest memory {} at {:#x}", ENTRY[entry as usize], a))?;
    }
    Ok(())
}

fn gen_slice(_t: Tier) -> Box<dyn Iterator<Item = Vec<u64>>> {
    Box::new((0..NENTRY).flat_map(|e| (0..4u64).flat_map(move |l| (0..4u64).flat_map(move |al| (0..6u64).map(move |c| vec![e, l, al * 5, c])))))
}

/// Copies of zero-sized elements.
fn run_zst(t: &mut Tape, cx: &mut Cx) -> Result<(), String> {
    let len = t.pick(&[0usize, 1, 8, 24]);
    let bl = t.pick(&[0usize, 1, 5]);
    let n = t.pick(&[0usize, 1, 7, 1000]);
    let which = t.below(6);
    let fr = Framed::new(len, 3);
    let s = fr.slice();
    let before = fr.contents();
    let what = format!("zero-sized element copy {} on a slice of {} bytes, buffer of {} elements, array of {} elements", which, len, bl, n);
    note!(cx, "{}", what);
    cx.nt("zero_sized_elements");
    let mut b8 = vec![[0u8; 0]; bl];
    let mut b64 = vec![[0u64; 0]; bl];
    match which {
        0 => {
            let k = s.copy_to(&mut b8[..]);
            ensure!(k <= bl, "{}: copy_to reported {} elements for a buffer of {}", what, k, bl);
        }
        1 => s.copy_from(&b64[..]),
        2 => {
            let a = s.get_array_ref::<[u8; 0]>(len / 2, n).map_err(|e| format!("{}: get_array_ref refused: {:?}", what, e))?;
            ensure!(a.len() == n, "array len");
            let k = a.copy_to(&mut b8[..]);
            ensure!(k <= bl, "{}: array copy_to reported {} elements for a buffer of {}", what, k, bl);
        }
        3 => {
            let a = s.get_array_ref::<[u64; 0]>(0, n).map_err(|e| format!("{}: get_array_ref refused: {:?}", what, e))?;
            a.copy_from(&b64[..]);
        }
        4 => {
            let a = s.get_array_ref::<[u16; 0]>(len, n).map_err(|e| format!("{}: get_array_ref refused: {:?}", what, e))?;
            if n > 0 {
                let v = a.load(n - 1);
                a.store(0, v);
                let _ = a.ref_at(n / 2).to_slice();
            }
            let d = s.subslice(0, len).map_err(|e| format!("{:?}", e))?;
            a.copy_to_volatile_slice(d);
        }
        _ => {
            let r = s.get_ref::<[u32; 0]>(len).map_err(|e| format!("{}: get_ref of a zero-sized type at the end refused: {:?}", what, e))?;
            let v = r.load();
            r.store(v);
            ensure!(r.to_slice().len() == 0, "to_slice of a zero-sized ref");
        }
    }
    let _ = (&mut b8, &mut b64);
    ensure!(fr.contents() == before, "{}: memory changed", what);
    fr.canaries_ok()
}

fn gen_zst(_t: Tier) -> Box<dyn Iterator<Item = Vec<u64>>> {
    Box::new((0..4u64).flat_map(|l| (0..3u64).flat_map(move |b| (0..4u64).flat_map(move |n| (0..6u64).map(move |w| vec![l, b, n, w])))))
}

const COPY_FORMS: [&str; 8] = [
    "region.get_slice(o, 0) + u8 copies with empty buffers",
    "guest.get_slice(base+o, 0) + u8 copies with empty buffers",
    "region get_array_ref::<[u8;0]>(o, 4) copy_to/copy_from",
    "region get_array_ref::<u32>(o, 0) copy_to/copy_from",
    "region get_ref::<[u8;0]>(o) store/load",
    "region.get_slice(o, 0) copy_to/copy_from of [u64;0] elements",
    "region get_array_ref::<[u64;0]>(o, 1000) copy_to_volatile_slice",
    "region get_array_ref::<u32/u16>(o, n > 0) copy_from(&[]) / copy_to(&mut [])",
];

/// Copy forms at region and guest level: the accessor for "no bytes at offset o" is obtained from
/// the region (VolatileMemory of the mapped region) or from guest memory, then copied through.
fn run_region_copy(t: &mut Tape, cx: &mut Cx) -> Result<(), String> {
    let form = t.idx(COPY_FORMS.len());
    let ri = t.idx(3);
    WORLD.with(|w| {
        let w = w.as_ref().map_err(|e| format!("HARNESS-PANIC: world: {}", e))?;
        let r = w.mem.iter().nth(ri).unwrap();
        let l = r.len();
        let base = w.layout.regs[ri].0;
        let classes: [(u64, &str, bool); 6] = [(0, "offset 0", true), (l / 2, "interior", true), (l - 1, "last byte", true), (l, "one past the end", false), (l + 5, "beyond the end", false), (u64::MAX, "u64::MAX", false)];
        let (o, cname, valid) = classes[t.idx(classes.len())];
        let what = format!("{} on a {} region, o = {:#x} ({})", COPY_FORMS[form], w.kinds[ri], o, cname);
        note!(cx, "{}", what);
        cx.nt(if valid { "copy_valid_offset" } else { "copy_invalid_offset" });
        cx.label(w.kinds[ri]);
        let before = w.snapshot();
        let ou = o as usize;
        // at an address valid for a non-empty access the accessor must be produced; elsewhere a
        // refusal is accepted
        macro_rules! got {
            ($e:expr) => {
                match $e {
                    Ok(x) => Some(x),
                    Err(e) => {
                        ensure!(!valid, "{}: refused with {:?}", what, e);
                        None
                    }
                }
            };
        }
        match form {
            0 | 1 | 5 => {
                let s = if form == 1 { got!(w.mem.get_slice(GuestAddress(base.wrapping_add(o)), 0)) } else { got!(r.get_slice(MemoryRegionAddress(o), 0)) };
                if let Some(s) = s {
                    ensure!(s.len() == 0, "{}: slice of {} bytes", what, s.len());
                    if form == 5 {
                        let mut b = [[0u64; 0]; 3];
                        let k = s.copy_to(&mut b[..]);
                        ensure!(k <= 3, "{}: copy_to reported {} elements", what, k);
                        s.copy_from(&b[..]);
                    } else {
                        let mut e: [u8; 0] = [];
                        ensure!(s.copy_to(&mut e[..]) == 0, "{}: copy_to(&mut []) != 0", what);
                        s.copy_from(&e[..]);
                        let mut b = [0u8; 4];
                        ensure!(s.copy_to(&mut b[..]) == 0, "{}: an empty slice copied elements out", what);
                        s.copy_from(&b[..]);
                    }
                }
            }
            2 => {
                if let Some(a) = got!(r.get_array_ref::<[u8; 0]>(ou, 4)) {
                    let mut b = [[0u8; 0]; 4];
                    let k = a.copy_to(&mut b[..]);
                    ensure!(k <= 4, "{}: copy_to reported {} elements", what, k);
                    a.copy_from(&b[..]);
                }
            }
            3 => {
                if let Some(a) = got!(r.get_array_ref::<u32>(ou, 0)) {
                    let mut b = [0u32; 2];
                    ensure!(a.copy_to(&mut b[..]) == 0, "{}: an empty array copied elements out", what);
                    a.copy_from(&b[..]);
                }
            }
            4 => {
                if let Some(z) = got!(r.get_ref::<[u8; 0]>(ou)) {
                    z.store([]);
                    let _: [u8; 0] = z.load();
                }
            }
            7 => {
                // a non-empty array and an empty buffer: no element is named
                let n = ((l.saturating_sub(o)) / 4).min(3) as usize;
                if n > 0 {
                    if let Some(a) = got!(r.get_array_ref::<u32>(ou, n)) {
                        let e: [u32; 0] = [];
                        a.copy_from(&e[..]);
                        let mut e2: [u32; 0] = [];
                        ensure!(a.copy_to(&mut e2[..]) == 0, "{}: copy_to(&mut []) reported elements", what);
                    }
                }
                if let Some(a) = got!(r.get_array_ref::<u16>(ou.min((l - 1) as usize).saturating_sub(1), 1)) {
                    let e: [u16; 0] = [];
                    a.copy_from(&e[..]);
                }
                let vs = r.as_volatile_slice().map_err(|e| format!("{:?}", e))?;
                let e: [u64; 0] = [];
                vs.copy_from(&e[..]);
            }
            _ => {
                if let Some(a) = got!(r.get_array_ref::<[u64; 0]>(ou, 1000)) {
                    let fr = Framed::new(8, 0);
                    a.copy_to_volatile_slice(fr.slice());
                    fr.canaries_ok()?;
                }
            }
        }
        let after = w.snapshot();
        ensure!(after.bytes == before.bytes, "{}: guest memory changed", what);
        ensure!(after.bits == before.bits, "{}: the access marked pages dirty", what);
        w.windows_ok()
    })
}

fn gen_region_copy(_t: Tier) -> Box<dyn Iterator<Item = Vec<u64>>> {
    Box::new((0..COPY_FORMS.len() as u64).flat_map(|f| (0..3u64).flat_map(move |r| (0..6u64).map(move |c| vec![f, r, c]))))
}

pub fn property() -> Property {
    Property {
        id: "C18",
        rule: "complete enumeration of (entry point x layer x address class x container): the 10 zero-length forms of the byte-access interface (empty write/read/write_slice/read_slice, write_obj/read_obj of zero-sized arrays, the four stream forms with count 0) at guest level (tracked GuestMemoryMmap; xen build: Unix + advance-mapped grant + on-demand grant regions; default-method mock incl. the top of the address space), region level, slice level (containers of 0/1/8/33 bytes at several alignments, empty sub-slices) over the address classes {interior, first/last byte, one past a region (hole or adjacent region), hole, 0, 2^32, 2^63, u64::MAX}; plus copies of zero-sized elements ([T;0]) and of zero elements through slices, element arrays (0..1000 elements) and typed references, obtained from plain slices and from mapped regions / guest memory (get_slice(o,0), get_array_ref, get_ref at offsets {0, interior, last, len, len+5, u64::MAX}); oracle: Ok(0)/Ok(()), no panic, memory and dirty bits unchanged, no Xen window left; stream forms are only required to succeed at addresses valid for a non-empty access; non-trivial = every class (all are boundary classes by construction); distinct = (entry, layer, class, container)",
        assumptions: &["for the stream forms and zero-sized element copies the statement only covers addresses valid for a non-empty access; elsewhere an error is accepted but a panic is not"],
        subchecks: vec![
            SubCheck { name: "guest", builds: &[Build::Std, Build::Plain, Build::Xen], kind: Kind::Exhaustive { gen: gen_guest }, run: run_guest },
            SubCheck { name: "region", builds: &[Build::Std, Build::Plain, Build::Xen], kind: Kind::Exhaustive { gen: gen_region }, run: run_region },
            SubCheck { name: "region_copy", builds: &[Build::Std, Build::Plain, Build::Xen], kind: Kind::Exhaustive { gen: gen_region_copy }, run: run_region_copy },
            SubCheck { name: "slice", builds: &[Build::Std, Build::Plain], kind: Kind::Exhaustive { gen: gen_slice }, run: run_slice },
            SubCheck { name: "zst", builds: &[Build::Std, Build::Plain], kind: Kind::Exhaustive { gen: gen_zst }, run: run_zst },
        ],
    }
}
