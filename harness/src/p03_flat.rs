//! C03 – guest memory reads and writes behave like one flat sparse byte array.
//! Oracle: `FlatModel`; after every step the raw contents of every region (through the host
//! pointer / the backing file, never through the API under test) are compared with the model.

use crate::common::*;
use crate::engine::*;
use crate::objs::*;
use crate::tape::Tape;
use crate::{ensure, note};
use std::io::{Cursor, Seek, SeekFrom};
use vm_memory::guest_memory::Error as GmError;
use vm_memory::{Bytes, GuestAddress};

#[derive(Debug, PartialEq, Clone)]
pub enum E {
    InvalidAddr,
    Partial(usize, usize),
    Io(std::io::ErrorKind),
    Backend,
    Other(String),
}

pub fn classify(e: &GmError) -> E {
    match e {
        GmError::InvalidGuestAddress(_) => E::InvalidAddr,
        GmError::PartialBuffer { expected, completed } => E::Partial(*expected, *completed),
        GmError::IOError(e) => E::Io(e.kind()),
        GmError::InvalidBackendAddress => E::Backend,
        other => E::Other(format!("{:?}", other)),
    }
}

fn res_u<T: std::fmt::Debug>(r: &Result<T, GmError>) -> String {
    match r {
        Ok(v) => format!("Ok({:?})", v),
        Err(e) => format!("Err({:?})", classify(e)),
    }
}

pub const FILL: u8 = 0xEE;
pub const SLACK: u8 = 0x5C;

pub fn pick_len(t: &mut Tape, run: u128, cap: usize) -> usize {
    let run = run.min(cap as u128) as usize;
    let l = match t.below(7) {
        0 | 1 => 1 + t.idx(16),
        2 => run.saturating_sub(1),
        3 => run,
        4 => run + 1,
        5 => run + 1 + t.idx(8),
        _ => 1 + t.idx(cap.min(64)),
    };
    l.clamp(1, cap + 9)
}

fn classify_access(lay: &Layout, a: u64, len: usize, cx: &mut Cx) {
    let run = lay.run(a);
    if run == 0 {
        cx.nt("unmapped_start");
        return;
    }
    let i = lay.find(a).unwrap();
    let in_region = (lay.regs[i].0 as u128 + lay.regs[i].1 as u128) - a as u128;
    let n = (len as u128).min(run);
    if n > in_region {
        cx.nt("crosses_region_boundary");
    }
    if (len as u128) > run {
        cx.nt("ends_in_hole");
    }
    let off = a - lay.regs[i].0;
    if off <= 2 || in_region <= 3 {
        cx.nt("starts_near_boundary");
    }
    if a as u128 + len as u128 > TOP {
        cx.nt("runs_past_top");
    }
}

pub fn step<S: Subject>(m: &S, model: &mut FlatModel, t: &mut Tape, cx: &mut Cx) -> Result<(), String> {
    let lay = model.layout.clone();
    let pts = lay.points();
    let op = t.below(12);
    let a = t.addr_near(&pts);
    let ga = GuestAddress(a);
    let run = lay.run(a);
    let cap = 9000usize;
    match op {
        0 => {
            let len = pick_len(t, run, cap);
            let data = t.bytes(len);
            note!(cx, "write({} bytes @ {:#x}, run {})", len, a, run);
            classify_access(&lay, a, len, cx);
            let r = m.write(&data, ga);
            if run == 0 {
                ensure!(matches!(&r, Err(e) if classify(e) == E::InvalidAddr), "write({} bytes @ {:#x}) with an unmapped first byte returned {}", len, a, res_u(&r));
            } else {
                let n = (len as u128).min(run) as usize;
                ensure!(matches!(&r, Ok(k) if *k == n), "write({} bytes @ {:#x}) returned {}, the mapped run is {} => want Ok({})", len, a, res_u(&r), run, n);
                model.write(a, &data[..n]);
            }
        }
        1 => {
            let len = pick_len(t, run, cap);
            let mut buf = vec![FILL; len];
            note!(cx, "read({} bytes @ {:#x}, run {})", len, a, run);
            classify_access(&lay, a, len, cx);
            let r = m.read(&mut buf, ga);
            if run == 0 {
                ensure!(matches!(&r, Err(e) if classify(e) == E::InvalidAddr), "read({} bytes @ {:#x}) with an unmapped first byte returned {}", len, a, res_u(&r));
                ensure!(buf.iter().all(|b| *b == FILL), "failed read modified the buffer");
            } else {
                let n = (len as u128).min(run) as usize;
                ensure!(matches!(&r, Ok(k) if *k == n), "read({} bytes @ {:#x}) returned {}, want Ok({})", len, a, res_u(&r), n);
                let want = model.read(a, n);
                ensure!(buf[..n] == want[..], "read({} @ {:#x}) delivered {} , the model has {}", len, a, hexs(&buf[..n]), hexs(&want));
                ensure!(buf[n..].iter().all(|b| *b == FILL), "read({} @ {:#x}) touched the buffer beyond the {} bytes it reported", len, a, n);
            }
        }
        2 | 4 => {
            // write_slice / write_obj
            let (len, ty) = if op == 2 { (pick_len(t, run, cap), 0) } else { let ty = t.idx(NOBJ); (OBJ_SIZES[ty], ty) };
            let data = t.bytes(len);
            classify_access(&lay, a, len, cx);
            let r = if op == 2 {
                note!(cx, "write_slice({} bytes @ {:#x}, run {})", len, a, run);
                m.write_slice(&data, ga)
            } else {
                note!(cx, "write_obj::<{}>(@ {:#x}, run {})", OBJ_NAMES[ty], a, run);
                write_obj_sel(m, ty, &data, ga)
            };
            let n = (len as u128).min(run) as usize;
            if run == 0 {
                ensure!(matches!(&r, Err(e) if classify(e) == E::InvalidAddr), "write_slice/obj({} @ {:#x}) unmapped start returned {}", len, a, res_u(&r));
            } else if n == len {
                ensure!(r.is_ok(), "write_slice/obj({} @ {:#x}) fits the run of {} but returned {}", len, a, run, res_u(&r));
                model.write(a, &data);
            } else {
                ensure!(matches!(&r, Err(e) if classify(e) == E::Partial(len, n)), "write_slice/obj({} @ {:#x}) with run {} returned {}, want PartialBuffer{{expected:{},completed:{}}}", len, a, run, res_u(&r), len, n);
                model.write(a, &data[..n]);
            }
        }
        3 => {
            let len = pick_len(t, run, cap);
            let mut buf = vec![FILL; len];
            note!(cx, "read_slice({} bytes @ {:#x}, run {})", len, a, run);
            classify_access(&lay, a, len, cx);
            let r = m.read_slice(&mut buf, ga);
            let n = (len as u128).min(run) as usize;
            if run == 0 {
                ensure!(matches!(&r, Err(e) if classify(e) == E::InvalidAddr), "read_slice({} @ {:#x}) unmapped start returned {}", len, a, res_u(&r));
            } else if n == len {
                ensure!(r.is_ok(), "read_slice({} @ {:#x}) fits but returned {}", len, a, res_u(&r));
            } else {
                ensure!(matches!(&r, Err(e) if classify(e) == E::Partial(len, n)), "read_slice({} @ {:#x}) with run {} returned {}", len, a, run, res_u(&r));
            }
            let want = model.read(a, n);
            ensure!(buf[..n] == want[..], "read_slice({} @ {:#x}) delivered {}, the model has {}", len, a, hexs(&buf[..n]), hexs(&want));
            ensure!(buf[n..].iter().all(|b| *b == FILL), "read_slice touched the buffer beyond the completed prefix");
        }
        5 => {
            let ty = t.idx(NOBJ);
            let len = OBJ_SIZES[ty];
            note!(cx, "read_obj::<{}>(@ {:#x}, run {})", OBJ_NAMES[ty], a, run);
            classify_access(&lay, a, len, cx);
            let r = read_obj_sel(m, ty, ga);
            let n = (len as u128).min(run) as usize;
            if run == 0 {
                ensure!(matches!(&r, Err(e) if classify(e) == E::InvalidAddr), "read_obj @ {:#x} unmapped start returned {}", a, res_u(&r));
            } else if n == len {
                let want = model.read(a, n);
                ensure!(matches!(&r, Ok(v) if v[..] == want[..]), "read_obj::<{}>(@ {:#x}) = {}, the model has {}", OBJ_NAMES[ty], a, res_u(&r), hexs(&want));
            } else {
                ensure!(matches!(&r, Err(e) if classify(e) == E::Partial(len, n)), "read_obj::<{}>(@ {:#x}) run {} returned {}", OBJ_NAMES[ty], a, run, res_u(&r));
            }
        }
        6 | 7 => {
            // read_volatile_from / read_exact_volatile_from
            let count = pick_len(t, run, cap);
            let srclen = match t.below(5) {
                0 => count,
                1 => count + 1 + t.idx(5),
                2 => count.saturating_sub(1 + t.idx(3)),
                3 => 0,
                _ => t.idx(count + 2),
            };
            let data = t.bytes(srclen);
            let kind = t.below(4);
            let exact = op == 7;
            note!(cx, "{}(@ {:#x}, src kind {} len {}, count {}, run {})", if exact { "read_exact_volatile_from" } else { "read_volatile_from" }, a, kind, srclen, count, run);
            classify_access(&lay, a, count, cx);
            cx.label("stream_in");
            let n = (count as u128).min(run).min(srclen as u128) as usize;
            let (r_up, r_ex, consumed): (Option<Result<usize, GmError>>, Option<Result<(), GmError>>, usize);
            match kind {
                0 => {
                    let mut s: &[u8] = &data[..];
                    if exact {
                        r_ex = Some(m.read_exact_volatile_from(ga, &mut s, count));
                        r_up = None;
                    } else {
                        r_up = Some(m.read_volatile_from(ga, &mut s, count));
                        r_ex = None;
                    }
                    consumed = srclen - s.len();
                }
                1 => {
                    let mut c = Cursor::new(&data[..]);
                    if exact {
                        r_ex = Some(m.read_exact_volatile_from(ga, &mut c, count));
                        r_up = None;
                    } else {
                        r_up = Some(m.read_volatile_from(ga, &mut c, count));
                        r_ex = None;
                    }
                    consumed = c.position() as usize;
                }
                2 => {
                    use std::os::unix::fs::FileExt;
                    let mut f = memfd(0);
                    f.write_all_at(&data, 0).map_err(|e| e.to_string())?;
                    if exact {
                        r_ex = Some(m.read_exact_volatile_from(ga, &mut f, count));
                        r_up = None;
                    } else {
                        r_up = Some(m.read_volatile_from(ga, &mut f, count));
                        r_ex = None;
                    }
                    consumed = f.seek(SeekFrom::Current(0)).map_err(|e| e.to_string())? as usize;
                }
                _ => {
                    // a source that delivers at most `chunk` bytes per call (like a pipe or socket)
                    let chunk = 1 + t.idx(7);
                    let cr = ChunkReader { data: data.clone(), pos: 0, chunk, calls: 0 };
                    cx.nt("chunked_source");
                    // sometimes every k-th call is interrupted first (the byte-access contract
                    // says interruptions are retried: the transfer looks the same)
                    let every = if t.chance(1, 3) { 1 + t.idx(3) } else { 0 };
                    if every > 0 {
                        cx.nt("interrupted_source");
                    }
                    let mut cr = Interrupting { inner: cr, every, calls: 0, pending: false };
                    if exact {
                        r_ex = Some(m.read_exact_volatile_from(ga, &mut cr, count));
                        r_up = None;
                    } else {
                        r_up = Some(m.read_volatile_from(ga, &mut cr, count));
                        r_ex = None;
                    }
                    consumed = cr.inner.pos;
                }
            }
            if run == 0 {
                let ok = match (&r_up, &r_ex) {
                    (Some(Err(e)), _) | (_, Some(Err(e))) => classify(e) == E::InvalidAddr,
                    _ => false,
                };
                ensure!(ok, "stream read into unmapped {:#x} returned {:?}{:?}", a, r_up.as_ref().map(res_u), r_ex.as_ref().map(res_u));
                ensure!(consumed == 0, "stream read into unmapped address consumed {} source bytes", consumed);
            } else {
                if let Some(r) = &r_up {
                    ensure!(matches!(r, Ok(k) if *k == n), "read_volatile_from(@ {:#x}, src len {}, count {}) with run {} returned {}, want Ok({})", a, srclen, count, run, res_u(r), n);
                }
                if let Some(r) = &r_ex {
                    if n == count {
                        ensure!(r.is_ok(), "read_exact_volatile_from(@ {:#x}, count {}) could be satisfied but returned {}", a, count, res_u(r));
                    } else {
                        ensure!(matches!(r, Err(e) if classify(e) == E::Partial(count, n)), "read_exact_volatile_from(@ {:#x}, src len {}, count {}) run {} returned {}, want PartialBuffer{{{},{}}}", a, srclen, count, run, res_u(r), count, n);
                    }
                }
                ensure!(consumed == n, "stream read stored {} bytes but consumed {} from the source", n, consumed);
                model.write(a, &data[..n]);
            }
        }
        8 | 9 => {
            // write_volatile_to / write_all_volatile_to
            let count = pick_len(t, run, cap);
            let want = (count as u128).min(run) as usize;
            let kind = t.below(5);
            let capc = match t.below(4) {
                0 => want,
                1 => want + 1 + t.idx(4),
                2 => want.saturating_sub(1 + t.idx(3)),
                _ => t.idx(want + 2),
            };
            let all = op == 9;
            note!(cx, "{}(@ {:#x}, sink kind {} cap {}, count {}, run {})", if all { "write_all_volatile_to" } else { "write_volatile_to" }, a, kind, capc, count, run);
            classify_access(&lay, a, count, cx);
            cx.label("stream_out");
            let (r_up, r_all, got, unlimited): (Option<Result<usize, GmError>>, Option<Result<(), GmError>>, Vec<u8>, bool);
            match kind {
                0 => {
                    let mut v: Vec<u8> = vec![1, 2, 3];
                    if all {
                        r_all = Some(m.write_all_volatile_to(ga, &mut v, count));
                        r_up = None;
                    } else {
                        r_up = Some(m.write_volatile_to(ga, &mut v, count));
                        r_all = None;
                    }
                    ensure!(v[..3] == [1, 2, 3], "Vec sink prefix clobbered");
                    got = v[3..].to_vec();
                    unlimited = true;
                }
                1 => {
                    let mut store = vec![FILL; capc];
                    let rem;
                    {
                        let mut s: &mut [u8] = &mut store[..];
                        if all {
                            r_all = Some(m.write_all_volatile_to(ga, &mut s, count));
                            r_up = None;
                        } else {
                            r_up = Some(m.write_volatile_to(ga, &mut s, count));
                            r_all = None;
                        }
                        rem = s.len();
                    }
                    got = store[..capc - rem].to_vec();
                    ensure!(store[capc - rem..].iter().all(|b| *b == FILL), "&mut [u8] sink written beyond its advanced position");
                    unlimited = false;
                }
                2 => {
                    let mut store = vec![FILL; capc];
                    let pos;
                    {
                        let mut c = Cursor::new(&mut store[..]);
                        if all {
                            r_all = Some(m.write_all_volatile_to(ga, &mut c, count));
                            r_up = None;
                        } else {
                            r_up = Some(m.write_volatile_to(ga, &mut c, count));
                            r_all = None;
                        }
                        pos = c.position() as usize;
                    }
                    got = store[..pos].to_vec();
                    ensure!(store[pos..].iter().all(|b| *b == FILL), "Cursor sink written beyond its position");
                    unlimited = false;
                }
                4 => {
                    let chunk = 1 + t.idx(7);
                    let mut cw = ChunkWriter { data: Vec::new(), cap: capc, chunk, calls: 0 };
                    cx.nt("chunked_sink");
                    if all {
                        r_all = Some(m.write_all_volatile_to(ga, &mut cw, count));
                        r_up = None;
                    } else {
                        r_up = Some(m.write_volatile_to(ga, &mut cw, count));
                        r_all = None;
                    }
                    got = cw.data;
                    unlimited = false;
                }
                _ => {
                    let mut f = memfd(0);
                    if all {
                        r_all = Some(m.write_all_volatile_to(ga, &mut f, count));
                        r_up = None;
                    } else {
                        r_up = Some(m.write_volatile_to(ga, &mut f, count));
                        r_all = None;
                    }
                    let pos = f.seek(SeekFrom::Current(0)).map_err(|e| e.to_string())? as usize;
                    got = pread_all(&f, 0, pos + 16);
                    ensure!(got.len() == pos, "file sink length {} != position {}", got.len(), pos);
                    unlimited = true;
                }
            }
            let shown = || format!("{:?}{:?}", r_up.as_ref().map(res_u), r_all.as_ref().map(res_u));
            if run == 0 {
                let ok = match (&r_up, &r_all) {
                    (Some(Err(e)), _) | (_, Some(Err(e))) => classify(e) == E::InvalidAddr,
                    _ => false,
                };
                ensure!(ok, "stream write from unmapped {:#x} returned {}", a, shown());
                ensure!(got.is_empty(), "stream write from unmapped address delivered {} bytes", got.len());
            } else {
                let short_sink = !unlimited && capc < want;
                let delivered = if short_sink { capc } else { want };
                let wantb = model.read(a, delivered);
                ensure!(got == wantb, "sink received {} ({} bytes), the model says {} ({} bytes)", hexs(&got), got.len(), hexs(&wantb), delivered);
                if short_sink {
                    let ok = match (&r_up, &r_all) {
                        (Some(Err(e)), _) | (_, Some(Err(e))) => classify(e) == E::Io(std::io::ErrorKind::WriteZero),
                        _ => false,
                    };
                    ensure!(ok, "sink of {} bytes is too short for {} but the call returned {}", capc, want, shown());
                    cx.nt("short_sink");
                } else {
                    if let Some(r) = &r_up {
                        ensure!(matches!(r, Ok(k) if *k == want), "write_volatile_to(@ {:#x}, count {}) run {} returned {}, want Ok({})", a, count, run, res_u(r), want);
                    }
                    if let Some(r) = &r_all {
                        if want == count {
                            ensure!(r.is_ok(), "write_all_volatile_to(@ {:#x}, count {}) returned {}", a, count, res_u(r));
                        } else {
                            ensure!(matches!(r, Err(e) if classify(e) == E::Partial(count, want)), "write_all_volatile_to(@ {:#x}, count {}) run {} returned {}", a, count, run, res_u(r));
                        }
                    }
                }
            }
        }
        _ => {
            // atomic store / load
            let ty = t.idx(NATOM);
            let sz = ATOM_SIZES[ty];
            let is_store = op == 10;
            let data = t.bytes(8);
            note!(cx, "{}::<{}>(@ {:#x})", if is_store { "store" } else { "load" }, ATOM_NAMES[ty], a);
            cx.label("atomic");
            let exp_ok = match lay.find(a) {
                None => None,
                Some(i) => {
                    let off = a - lay.regs[i].0;
                    let fits = off as u128 + sz as u128 <= lay.regs[i].1 as u128;
                    let host = m.align_addr(i, off as usize);
                    Some(fits && host % sz == 0)
                }
            };
            if is_store {
                let ord = t.pick(&STORE_ORDERS);
                let r = store_sel(m, ty, &data, ga, ord);
                match exp_ok {
                    None => ensure!(matches!(&r, Err(e) if classify(e) == E::InvalidAddr), "store @ unmapped {:#x} returned {}", a, res_u(&r)),
                    Some(true) => {
                        ensure!(r.is_ok(), "aligned in-region store::<{}>(@ {:#x}) returned {}", ATOM_NAMES[ty], a, res_u(&r));
                        model.write(a, &data[..sz]);
                    }
                    Some(false) => {
                        ensure!(r.is_err(), "misaligned or region-crossing store::<{}>(@ {:#x}) succeeded", ATOM_NAMES[ty], a);
                        cx.nt("atomic_refused");
                    }
                }
            } else {
                let ord = t.pick(&LOAD_ORDERS);
                let r = load_sel(m, ty, ga, ord);
                match exp_ok {
                    None => ensure!(matches!(&r, Err(e) if classify(e) == E::InvalidAddr), "load @ unmapped {:#x} returned {}", a, res_u(&r)),
                    Some(true) => {
                        let want = model.read(a, sz);
                        ensure!(matches!(&r, Ok(v) if v[..] == want[..]), "load::<{}>(@ {:#x}) = {}, the model has {}", ATOM_NAMES[ty], a, res_u(&r), hexs(&want));
                    }
                    Some(false) => {
                        ensure!(r.is_err(), "misaligned or region-crossing load::<{}>(@ {:#x}) succeeded", ATOM_NAMES[ty], a);
                        cx.nt("atomic_refused");
                    }
                }
            }
        }
    }
    Ok(())
}

/// A chunked source whose every `every`-th call fails once with `Interrupted` before it delivers.
struct Interrupting {
    inner: ChunkReader,
    every: usize,
    calls: usize,
    pending: bool,
}

impl vm_memory::ReadVolatile for Interrupting {
    fn read_volatile<B: vm_memory::bitmap::BitmapSlice>(&mut self, buf: &mut vm_memory::VolatileSlice<B>) -> Result<usize, vm_memory::VolatileMemoryError> {
        if self.every > 0 && !self.pending {
            self.calls += 1;
            if self.calls % self.every == 0 {
                self.pending = true;
                return Err(vm_memory::VolatileMemoryError::IOError(std::io::Error::from(std::io::ErrorKind::Interrupted)));
            }
        }
        self.pending = false;
        self.inner.read_volatile(buf)
    }
}

fn history<S: Subject>(m: &S, lay: &Layout, files: &[Option<(std::fs::File, u64)>], t: &mut Tape, cx: &mut Cx) -> Result<(), String> {
    note!(cx, "{} layout {}", m.kind(), lay.describe());
    let fill = |ri: usize, o: usize| (ri as u8).wrapping_mul(37).wrapping_add((o as u8).wrapping_mul(11)).wrapping_add(1);
    raw_fill(m, lay, fill, SLACK);
    let mut model = FlatModel::new(lay.clone(), fill);
    raw_compare(m, &model, SLACK)?;
    let nops = 1 + t.idx(20);
    for i in 0..nops {
        if t.exhausted() && i > 0 {
            break;
        }
        step(m, &mut model, t, cx)?;
        raw_compare(m, &model, SLACK).map_err(|e| format!("after step {}: {}", i, e))?;
        files_compare(files, &model).map_err(|e| format!("after step {}: {}", i, e))?;
    }
    if files.iter().any(|f| f.is_some()) {
        cx.label("file_backed_region");
    }
    Ok(())
}

fn run_mmap(t: &mut Tape, cx: &mut Cx) -> Result<(), String> {
    let lay = gen_layout(t, 4, TopMode::Mmap, true);
    if t.chance(1, 4) {
        // the same layout reached by removing extra regions from a superset (a collection is a
        // collection however it was built)
        use vm_memory::{GuestMemoryMmap, GuestRegionMmap};
        let mut all = lay.regs.clone();
        let mut extras = Vec::new();
        for _ in 0..(1 + t.idx(3)) {
            let slot = t.idx(all.len() + 1);
            let lo = if slot == 0 { 0u128 } else { all[slot - 1].0 as u128 + all[slot - 1].1 as u128 };
            let hi = if slot == all.len() { (1u128 << 64) - 1 } else { all[slot].0 as u128 };
            if hi <= lo {
                continue;
            }
            let len = (1 + t.below(8) as u128).min(hi - lo);
            let start = if t.flag() { lo } else { hi - len };
            all.insert(slot, (start as u64, len as u64));
            extras.push((start as u64, len as u64));
        }
        let regions: Result<Vec<_>, String> = all.iter().map(|&(s, l)| GuestRegionMmap::<()>::from_range(GuestAddress(s), l as usize, None).map_err(|e| format!("from_range: {:?}", e))).collect();
        let mut m = GuestMemoryMmap::from_regions(regions?).map_err(|e| format!("from_regions({:x?}): {:?}", all, e))?;
        note!(cx, "superset {:x?}, removing {:x?}", all, extras);
        while !extras.is_empty() {
            let (s, l) = extras.remove(t.idx(extras.len()));
            let (nm, _r) = m.remove_region(GuestAddress(s), l).map_err(|e| format!("remove_region({:#x},{}): {:?}", s, l, e))?;
            m = nm;
        }
        cx.nt("built_by_remove_region");
        return history(&m, &lay, &[], t, cx);
    }
    let subj = build_mmap_kinds::<()>(&lay, t, 1)?;
    history(&subj.mem, &lay, &subj.files, t, cx)
}

/// xen build: guest memory made of emulated foreign / grant regions (mapped in advance and on
/// demand) and Unix regions; adjacent page-sized regions so that accesses cross between kinds.
#[cfg(feature = "xen")]
fn run_xen(t: &mut Tape, cx: &mut Cx) -> Result<(), String> {
    use crate::xen_emul::{gen_kind, live, reset, XenMem};
    reset();
    let n = 2 + t.idx(2);
    let mut regs = Vec::new();
    let mut kinds = Vec::new();
    let mut cur = 0x1000u64 * (1 + t.below(3));
    for i in 0..n {
        let size = if t.chance(2, 3) { 4096 } else { 1 + t.below(40) };
        regs.push((cur, size));
        kinds.push(gen_kind(t));
        // the next region is adjacent when this one fills its page(s), otherwise after a hole
        cur += if size == 4096 && t.chance(3, 4) { 4096 } else { 0x2000 };
        let _ = i;
    }
    let lay = Layout { regs };
    let m = XenMem::build(&lay, &kinds)?;
    note!(cx, "xen kinds {:?}", kinds);
    cx.nt("xen_regions");
    if kinds.iter().any(|k| *k == crate::xen_emul::Kind::GrantOnDemand) {
        cx.nt("on_demand_region");
    }
    let before = live();
    let r = history(&m, &lay, &[], t, cx);
    ensure!(live() == before, "temporary Xen windows remain mapped after the history: {:x?}", live());
    r
}

#[cfg(not(feature = "xen"))]
fn run_xen(_t: &mut Tape, _cx: &mut Cx) -> Result<(), String> {
    Ok(())
}

fn run_mock(t: &mut Tape, cx: &mut Cx) -> Result<(), String> {
    let lay = gen_layout(t, 4, TopMode::Mock, true);
    let m = MockMem::new(&lay);
    history(&m, &lay, &[], t, cx)
}

/// Hand-written regression cases (bypass the generators).
fn run_regress(t: &mut Tape, cx: &mut Cx) -> Result<(), String> {
    match t.below(2) {
        _ => {
            // F6: a write running past 2^64-1 continued at guest address 0
            let lay = Layout { regs: vec![(0, 4), (u64::MAX - 1, 2)] };
            let m = MockMem::new(&lay);
            let fill = |ri: usize, o: usize| (ri * 16 + o + 1) as u8;
            raw_fill(&m, &lay, fill, SLACK);
            let mut model = FlatModel::new(lay.clone(), fill);
            note!(cx, "regression F6: mock layout {} write/read across the top", lay.describe());
            cx.nt("regression_F6");
            let r = m.write(&[0xAA, 0xBB, 0xCC], GuestAddress(u64::MAX));
            ensure!(matches!(&r, Ok(1)), "write(3 bytes @ 2^64-1) returned {:?}, want Ok(1)", r.map_err(|e| classify(&e)));
            model.write(u64::MAX, &[0xAA]);
            raw_compare(&m, &model, SLACK)?;
            let mut buf = [FILL; 4];
            let r = m.read(&mut buf, GuestAddress(u64::MAX - 1));
            ensure!(matches!(&r, Ok(2)), "read(4 bytes @ 2^64-2) returned {:?}, want Ok(2)", r.map_err(|e| classify(&e)));
            ensure!(buf[2..] == [FILL, FILL], "read across the top delivered bytes from address 0");
            let r = m.write_slice(&[1, 2, 3], GuestAddress(u64::MAX - 1));
            ensure!(matches!(&r, Err(e) if classify(e) == E::Partial(3, 2)), "write_slice(3 @ 2^64-2) returned {:?}", r.map_err(|e| classify(&e)));
            model.write(u64::MAX - 1, &[1, 2]);
            raw_compare(&m, &model, SLACK)?;
            Ok(())
        }
    }
}

fn gen_regress(_t: Tier) -> Box<dyn Iterator<Item = Vec<u64>>> {
    Box::new((0..2u64).map(|i| vec![i]))
}

pub fn property() -> Property {
    Property {
        id: "C03",
        rule: "a case = a layout (2..4 regions incl. adjacent, holes, both ends of the address space; anonymous, shared-file-backed, Xen-UNIX in the xen build; or a mock GuestMemory using only default methods) + a history of 1..20 guest-level operations (write/read, write_slice/read_slice, write_obj/read_obj of 12 types, stream transfers from &[u8]/Cursor/File and into Vec/&mut [u8]/Cursor/File incl. too-short sources and sinks, atomic store/load), each checked against the flat model and followed by a whole-memory comparison through host pointers and backing files; non-trivial = an access that crosses a region boundary, ends in a hole, starts within 2 bytes of a boundary or at an unmapped address, runs past 2^64, hits a short sink, or a refused atomic; distinct = decoded (layout, history)",
        assumptions: &["oracle: flat sparse byte array indexed 0..2^64; a run of mapped addresses ends at 2^64", "zero-length accesses are C18's business and are not generated here"],
        subchecks: vec![
            SubCheck { name: "mmap", builds: &[Build::Std, Build::Xen], kind: Kind::Random { quick: 24_000, thorough: 1_200_000, max_words: 200 }, run: run_mmap },
            SubCheck { name: "mock", builds: &[Build::Std], kind: Kind::Random { quick: 16_000, thorough: 800_000, max_words: 200 }, run: run_mock },
            SubCheck { name: "xen_regions", builds: &[Build::Xen], kind: Kind::Random { quick: 3_000, thorough: 150_000, max_words: 200 }, run: run_xen },
            SubCheck { name: "regress", builds: &[Build::Std], kind: Kind::Exhaustive { gen: gen_regress }, run: run_regress },
        ],
    }
}
