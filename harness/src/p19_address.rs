//! C19 – address arithmetic reports overflow instead of wrapping (oracle: 128-bit integers).

use crate::engine::*;
use crate::tape::Tape;
use crate::{ensure, note};
use std::fmt::Debug;
use vm_memory::{Address, GuestAddress, MemoryRegionAddress};

const NOPS: u64 = 10;

pub fn boundary_set() -> Vec<u64> {
    let mut v: Vec<u64> = Vec::new();
    for k in 0..=4u64 {
        v.push(k);
        v.push((1u64 << 32).wrapping_add(k));
        v.push((1u64 << 32).wrapping_sub(k));
        v.push((1u64 << 63).wrapping_add(k));
        v.push((1u64 << 63).wrapping_sub(k));
        v.push(u64::MAX - k);
    }
    for k in 0..64u32 {
        let p = 1u64 << k;
        v.push(p);
        v.push(p.wrapping_add(1));
        v.push(p.wrapping_sub(1));
    }
    v.sort_unstable();
    v.dedup();
    v
}

thread_local! {
    static BSET: Vec<u64> = boundary_set();
}

fn operand(t: &mut Tape) -> u64 {
    if t.below(2) == 0 {
        BSET.with(|b| b[t.idx(b.len())])
    } else {
        t.word()
    }
}

fn near_edge(x: i128) -> bool {
    let top = 1i128 << 64;
    !(0..top).contains(&x) || x <= 4 || x >= top - 5
}

fn check<A>(op: u64, a: u64, b: u64, cx: &mut Cx) -> Result<(), String>
where
    A: Address<V = u64> + Debug,
{
    let top = 1i128 << 64;
    let fits = |x: i128| (0..top).contains(&x);
    let aa = A::new(a);
    ensure!(aa.raw_value() == a, "new/raw_value: {:#x} -> {:#x}", a, aa.raw_value());
    let (ai, bi) = (a as i128, b as i128);
    match op {
        0 => {
            let exact = ai + bi;
            note!(cx, "checked_add({:#x},{:#x})", a, b);
            let got = aa.checked_add(b).map(|x| x.raw_value());
            let want = if fits(exact) { Some(exact as u64) } else { None };
            ensure!(got == want, "checked_add({:#x},{:#x}) = {:x?}, exact {:#x} => want {:x?}", a, b, got, exact, want);
            if near_edge(exact) {
                cx.nt(if fits(exact) { "add_near_edge" } else { "add_overflow" });
            }
        }
        1 => {
            let exact = ai - bi;
            note!(cx, "checked_sub({:#x},{:#x})", a, b);
            let got = aa.checked_sub(b).map(|x| x.raw_value());
            let want = if fits(exact) { Some(exact as u64) } else { None };
            ensure!(got == want, "checked_sub({:#x},{:#x}) = {:x?}, want {:x?}", a, b, got, want);
            if near_edge(exact) {
                cx.nt(if fits(exact) { "sub_near_edge" } else { "sub_underflow" });
            }
        }
        2 => {
            let exact = ai + bi;
            note!(cx, "overflowing_add({:#x},{:#x})", a, b);
            let (v, f) = aa.overflowing_add(b);
            ensure!(
                v.raw_value() == (exact.rem_euclid(top)) as u64 && f == !fits(exact),
                "overflowing_add({:#x},{:#x}) = ({:#x},{}), exact {:#x}",
                a, b, v.raw_value(), f, exact
            );
            if near_edge(exact) {
                cx.nt(if fits(exact) { "oadd_near_edge" } else { "oadd_overflow" });
            }
        }
        3 => {
            let exact = ai - bi;
            note!(cx, "overflowing_sub({:#x},{:#x})", a, b);
            let (v, f) = aa.overflowing_sub(b);
            ensure!(
                v.raw_value() == (exact.rem_euclid(top)) as u64 && f == !fits(exact),
                "overflowing_sub({:#x},{:#x}) = ({:#x},{}), exact {}",
                a, b, v.raw_value(), f, exact
            );
            if near_edge(exact) {
                cx.nt(if fits(exact) { "osub_near_edge" } else { "osub_underflow" });
            }
        }
        4 => {
            let exact = ai - bi;
            note!(cx, "checked_offset_from({:#x}, base {:#x})", a, b);
            let got = aa.checked_offset_from(A::new(b));
            let want = if fits(exact) { Some(exact as u64) } else { None };
            ensure!(got == want, "checked_offset_from({:#x}, base {:#x}) = {:x?}, want {:x?}", a, b, got, want);
            if near_edge(exact) {
                cx.nt(if fits(exact) { "dist_near_edge" } else { "dist_negative" });
            }
        }
        5 => {
            let k = (b % 64) as u32;
            let p = 1u64 << k;
            let pi = p as i128;
            let exact = ((ai + pi - 1) / pi) * pi;
            note!(cx, "checked_align_up({:#x}, 2^{})", a, k);
            let got = aa.checked_align_up(p).map(|x| x.raw_value());
            let want = if fits(exact) { Some(exact as u64) } else { None };
            ensure!(got == want, "checked_align_up({:#x}, {:#x}) = {:x?}, want {:x?}", a, p, got, want);
            if let Some(g) = got {
                ensure!(g % p == 0 && g >= a && (g - a) < p, "align_up result {:#x} is not the least multiple of {:#x} >= {:#x}", g, p, a);
            }
            if !fits(exact) {
                cx.nt("align_overflow");
            } else if near_edge(exact) || a % p == 0 || a % p == p - 1 || a % p == 1 {
                cx.nt("align_boundary");
            }
        }
        6 => {
            // unchecked forms, compared only where the exact result fits (documented to
            // panic/wrap otherwise).
            let s = ai + bi;
            let d = ai - bi;
            note!(cx, "unchecked ops({:#x},{:#x})", a, b);
            if fits(s) {
                let g = aa.unchecked_add(b).raw_value();
                ensure!(g == s as u64, "unchecked_add({:#x},{:#x}) = {:#x}", a, b, g);
            } else {
                cx.count("excluded_documented_panic", 1);
            }
            if fits(d) {
                let g = aa.unchecked_sub(b).raw_value();
                ensure!(g == d as u64, "unchecked_sub({:#x},{:#x}) = {:#x}", a, b, g);
                let g = aa.unchecked_offset_from(A::new(b));
                ensure!(g == d as u64, "unchecked_offset_from({:#x},{:#x}) = {:#x}", a, b, g);
            } else {
                cx.count("excluded_documented_panic", 1);
            }
            let k = (b % 64) as u32;
            let p = 1u64 << k;
            let pi = p as i128;
            if fits(ai + pi - 1) {
                let exact = ((ai + pi - 1) / pi) * pi;
                let g = aa.unchecked_align_up(p).raw_value();
                ensure!(g == exact as u64, "unchecked_align_up({:#x},{:#x}) = {:#x}, want {:#x}", a, p, g, exact);
            }
            if near_edge(s) || near_edge(d) {
                cx.nt("unchecked_near_edge");
            }
        }
        7 => {
            note!(cx, "mask/and/or({:#x},{:#x})", a, b);
            ensure!(aa.mask(b) == a & b, "mask({:#x},{:#x}) = {:#x}", a, b, aa.mask(b));
            ensure!((aa & b).raw_value() == a & b, "bitand");
            ensure!((aa | b).raw_value() == a | b, "bitor");
            ensure!(A::default().raw_value() == 0, "default");
            if (a & b) != a && (a & b) != b && (a | b) != a {
                cx.nt("bitops_mixed");
            }
        }
        8 | _ => {
            note!(cx, "cmp/eq({:#x},{:#x})", a, b);
            let bb = A::new(b);
            ensure!(aa.cmp(&bb) == a.cmp(&b), "cmp({:#x},{:#x}) = {:?}", a, b, aa.cmp(&bb));
            ensure!(aa.partial_cmp(&bb) == Some(a.cmp(&b)), "partial_cmp");
            ensure!((aa == bb) == (a == b), "eq({:#x},{:#x})", a, b);
            ensure!((aa < bb) == (a < b) && (aa <= bb) == (a <= b) && (aa > bb) == (a > b) && (aa >= bb) == (a >= b), "ordering operators");
            ensure!(std::cmp::max(aa, bb).raw_value() == a.max(b), "max");
            // every provided method of Ord / PartialEq, in both argument orders (a hand-written
            // impl may override any of them), and the std algorithms built on the ordering
            ensure!(std::cmp::min(aa, bb).raw_value() == a.min(b), "min({:#x},{:#x}) = {:#x}", a, b, std::cmp::min(aa, bb).raw_value());
            ensure!(Ord::max(bb, aa).raw_value() == a.max(b) && Ord::min(bb, aa).raw_value() == a.min(b), "max/min({:#x},{:#x}) with the arguments swapped", b, a);
            ensure!((aa != bb) == (a != b) && (bb == aa) == (a == b), "ne({:#x},{:#x})", a, b);
            ensure!(bb.cmp(&aa) == b.cmp(&a) && bb.partial_cmp(&aa) == Some(b.cmp(&a)), "cmp({:#x},{:#x}) with the arguments swapped", b, a);
            let (lo, hi) = (a.min(b), a.max(b));
            for c in [a, b, op ^ a, lo.wrapping_sub(1), hi.wrapping_add(1), lo / 2 + hi / 2] {
                let got = A::new(c).clamp(A::new(lo), A::new(hi)).raw_value();
                ensure!(got == c.clamp(lo, hi), "{:#x}.clamp({:#x},{:#x}) = {:#x}", c, lo, hi, got);
            }
            let third = lo / 2 + hi / 2;
            let mut v = [aa, bb, A::new(third)];
            let mut w = [a, b, third];
            v.sort();
            w.sort();
            ensure!(v.iter().map(|x| x.raw_value()).eq(w.iter().copied()), "sort([{:#x},{:#x},{:#x}])", a, b, third);
            ensure!(v.iter().min().map(|x| x.raw_value()) == w.iter().min().copied() && v.iter().max().map(|x| x.raw_value()) == w.iter().max().copied(), "Iterator::min/max");
            let d = (a as i128 - b as i128).abs();
            if d <= 4 || (a >> 63) != (b >> 63) {
                cx.nt("cmp_close_or_sign");
            }
        }
    }
    Ok(())
}

fn run(t: &mut Tape, cx: &mut Cx) -> Result<(), String> {
    let ty = t.below(2);
    let op = t.below(NOPS);
    let a = operand(t);
    let b = operand(t);
    if ty == 0 {
        cx.label("GuestAddress");
        check::<GuestAddress>(op, a, b, cx)
    } else {
        cx.label("MemoryRegionAddress");
        check::<MemoryRegionAddress>(op, a, b, cx)
    }
}

fn gen_boundary(_tier: Tier) -> Box<dyn Iterator<Item = Vec<u64>>> {
    let n = boundary_set().len() as u64;
    Box::new((0..2u64).flat_map(move |ty| {
        (0..NOPS).flat_map(move |op| {
            (0..n).flat_map(move |ia| (0..n).map(move |ib| vec![ty, op, 0, ia, 0, ib]))
        })
    }))
}

fn gen_align(_tier: Tier) -> Box<dyn Iterator<Item = Vec<u64>>> {
    // all 64 alignments x boundary set, op 5 (b = k via boundary value index of 2^k is awkward,
    // so use the "word" operand form with the exponent itself: b % 64 == k)
    let n = boundary_set().len() as u64;
    Box::new((0..2u64).flat_map(move |ty| {
        (0..n).flat_map(move |ia| (0..64u64).map(move |k| vec![ty, 5, 0, ia, 1, k]))
    }))
}

pub fn property() -> Property {
    Property {
        id: "C19",
        rule: "operand pairs = full cross product of a ~330-value boundary set (0, 2^32, 2^63, 2^64 +-4, all 2^k, 2^k+-1) for every operation and both address types (exhaustive sub-domain), all 64 alignments x boundary set, plus random 64-bit pairs; the compare operation covers cmp/partial_cmp/==/!=/</<=/>/>= and max/min in both argument orders, clamp, sort and Iterator::min/max against the same on u64; non-trivial = exact result does not fit in 64 bits or lies within 4 of 0 / 2^64 (or for bit/compare ops: mixed bits / close or sign-differing operands); distinct = decoded (type, op, a, b)",
        assumptions: &["oracle is i128 arithmetic", "unchecked_* forms compared only where the exact result fits (documented to panic/wrap otherwise)"],
        subchecks: vec![
            SubCheck {
                name: "boundary_product",
                builds: &[Build::Std, Build::Plain],
                kind: Kind::Exhaustive { gen: gen_boundary },
                run,
            },
            SubCheck {
                name: "align_all_powers",
                builds: &[Build::Std, Build::Plain],
                kind: Kind::Exhaustive { gen: gen_align },
                run,
            },
            SubCheck {
                name: "random_pairs",
                builds: &[Build::Std, Build::Plain],
                kind: Kind::Random { quick: 300_000, thorough: 40_000_000, max_words: 6 },
                run,
            },
        ],
    }
}
