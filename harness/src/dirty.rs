//! Shared engine of C05 (dirty tracking is sound) and C16 (dirty tracking is precise).
//!
//! A case builds tracked memory at one of three levels (bare `VolatileSlice::with_bitmap` with a
//! plain / optional / sliced-at-a-base bitmap flavour; an `MmapRegion` built with its own bitmap
//! and page size; a `GuestMemoryMmap<AtomicBitmap>` of 2..3 regions), derives an accessor through
//! a chain of sub-slicing, and runs a history of write-type and read-type operations interleaved
//! with bitmap resets. Around every operation it snapshots all guest bytes (raw pointers) and
//! all bitmap bits (`is_bit_set` sweep):
//!   * C05: every byte whose value changed must be dirty in the owning bitmap afterwards; a
//!     failing descriptor read must report its whole target.
//!   * C16: newly dirty pages must be pages overlapping the bytes the operation wrote (by the
//!     harness' own account of the operation); read-type and rejected operations add none;
//!     dirty pages stay dirty until a reset.
//! Written data is the bitwise complement of the current content, so every written byte changes.

use crate::common::*;
use crate::engine::*;
use crate::objs::*;
use crate::p04_container::{Pod, NPOD};
use crate::tape::Tape;
use crate::{ensure, note, with_pod};
use std::num::NonZeroUsize;
use std::sync::Arc;
use vm_memory::bitmap::{ArcSlice, AtomicBitmap, Bitmap, BitmapSlice, RefSlice};
use vm_memory::{
    Be64, Bytes, GuestAddress, GuestMemory, GuestMemoryMmap, GuestMemoryRegion, GuestRegionMmap, Le32,
    ReadVolatile, VolatileMemory, VolatileSlice, WriteVolatile,
};

#[derive(Clone, Copy, PartialEq, Eq)]
pub enum Mode {
    Sound,
    Precise,
}

/// One tracked region as seen by the oracle.
pub struct Track<'a> {
    pub bm: &'a AtomicBitmap,
    /// bitmap address that corresponds to region offset 0
    pub base: usize,
    pub page: usize,
    pub host: *mut u8,
    pub size: usize,
    /// view of the region's bytes that does not go through a host pointer (regions mapped on
    /// demand have none; `host` is then null, which is also what the library aligns against)
    pub raw: Option<&'a dyn Fn() -> Vec<u8>>,
}

impl Track<'_> {
    fn bytes(&self) -> Vec<u8> {
        if let Some(f) = self.raw {
            return f();
        }
        // SAFETY: host..host+size is the region's memory.
        (0..self.size).map(|i| unsafe { self.host.add(i).read_volatile() }).collect()
    }
    fn pages(&self) -> Vec<bool> {
        (0..self.bm.len() + 2).map(|i| self.bm.is_bit_set(i)).collect()
    }
    fn page_of(&self, off: usize) -> usize {
        (self.base + off) / self.page
    }
}

/// What the harness knows the operation wrote: (region index, offset, len)
pub type Written = Vec<(usize, usize, usize)>;

pub struct OpReport {
    pub written: Written,
    /// a descriptor read failed: its whole target (region, offset, len) may be marked
    pub failed_fd_target: Option<(usize, usize, usize)>,
    pub is_write: bool,
}

fn judge(mode: Mode, tracks: &[Track], before_b: &[Vec<u8>], before_p: &[Vec<bool>], rep: &OpReport, what: &str) -> Result<(), String> {
    for (ri, tr) in tracks.iter().enumerate() {
        let after_b = tr.bytes();
        let after_p = tr.pages();
        match mode {
            Mode::Sound => {
                for o in 0..tr.size {
                    if after_b[o] != before_b[ri][o] {
                        let p = tr.page_of(o);
                        if !after_p.get(p).copied().unwrap_or(false) {
                            return Err(format!("{}: byte at offset {} of region {} changed ({:#04x} -> {:#04x}) but page {} (page size {}, bitmap base {}) is clean", what, o, ri, before_b[ri][o], after_b[o], p, tr.page, tr.base));
                        }
                        ensure!(tr.bm.is_addr_set(tr.base + o) && tr.bm.dirty_at(tr.base + o), "{}: dirty_at({}) disagrees with is_bit_set", what, tr.base + o);
                    }
                }
                if let Some((fr, fo, fl)) = rep.failed_fd_target {
                    if fr == ri {
                        for o in fo..fo + fl {
                            let p = tr.page_of(o);
                            ensure!(after_p.get(p).copied().unwrap_or(false), "{}: the descriptor read failed but offset {} of its target [{}..+{}] is not reported dirty", what, o, fo, fl);
                        }
                    }
                }
            }
            Mode::Precise => {
                // allowed pages
                let mut allowed = vec![false; after_p.len()];
                for &(wr, wo, wl) in rep.written.iter().chain(rep.failed_fd_target.iter()) {
                    if wr == ri && wl > 0 {
                        for p in tr.page_of(wo)..=tr.page_of(wo + wl - 1) {
                            if p < allowed.len() {
                                allowed[p] = true;
                            }
                        }
                    }
                }
                for p in 0..after_p.len() {
                    if after_p[p] && !before_p[ri][p] && !allowed[p] {
                        return Err(format!("{}: page {} of region {} (page size {}, bitmap base {}) became dirty although the operation wrote only {:?} (region, offset, len)", what, p, ri, tr.page, tr.base, rep.written));
                    }
                    if before_p[ri][p] && !after_p[p] {
                        return Err(format!("{}: page {} of region {} was dirty and is clean now without a reset", what, p, ri));
                    }
                }
                if !rep.is_write {
                    ensure!(after_b == before_b[ri], "{}: a read-type operation changed guest memory", what);
                }
                // "exactly the pages that overlap": the other half, judged on the byte diff
                for o in 0..tr.size {
                    if after_b[o] != before_b[ri][o] {
                        let p = tr.page_of(o);
                        if !after_p.get(p).copied().unwrap_or(false) {
                            return Err(format!("{}: byte at offset {} of region {} was written ({:#04x} -> {:#04x}) but page {} (page size {}, bitmap base {}) was not marked", what, o, ri, before_b[ri][o], after_b[o], p, tr.page, tr.base));
                        }
                    }
                }
            }
        }
    }
    Ok(())
}

fn complement(tr: &Track, off: usize, n: usize) -> Vec<u8> {
    if let Some(f) = tr.raw {
        return f()[off..off + n].iter().map(|b| !b).collect();
    }
    // SAFETY: off+n <= size is guaranteed by the callers.
    (0..n).map(|i| unsafe { !tr.host.add(off + i).read_volatile() }).collect()
}

fn wo_file() -> std::fs::File {
    // a descriptor opened write-only: read(2) fails with EBADF
    std::fs::OpenOptions::new().write(true).open("/dev/null").expect("open /dev/null")
}

fn classify_write(tr: &Track, ro: usize, n: usize, cx: &mut Cx) {
    if n == 0 {
        return;
    }
    let a = tr.base + ro;
    if a % tr.page != 0 && tr.base != 0 {
        cx.nt("composed_offset_unaligned");
    }
    if tr.page_of(ro) != tr.page_of(ro + n - 1) {
        cx.nt("page_straddling");
    }
    if (a + n) % tr.page == 0 {
        cx.nt("ends_at_page_end");
    }
    if (a + n) % tr.page == 1 && n > 1 {
        cx.nt("one_byte_into_next_page");
    }
}

// ---------------------------------------------------------------------------------------------
// operations through a slice (generic over the bitmap-slice flavour)

fn typed_write<T: Pod, B: BitmapSlice>(s: &VolatileSlice<'_, B>, tr: &Track, ri: usize, co: usize, t: &mut Tape, cx: &mut Cx) -> Result<OpReport, String> {
    let sl = s.len();
    let sz = T::N;
    let mut rep = OpReport { written: vec![], failed_fd_target: None, is_write: true };
    match t.below(6) {
        5 => {
            // an element array elsewhere -> copy_to_volatile_slice(sub-slice of s)
            let doff = t.idx(sl + 1);
            let dlen = t.idx(sl - doff + 1);
            let dst = s.subslice(doff, dlen).map_err(|e| format!("{:?}", e))?;
            let n = match t.below(3) {
                0 => dlen / sz,
                1 => dlen / sz + 1 + t.idx(2),
                _ => t.idx(dlen / sz + 1),
            };
            let cnt = (n * sz).min(dlen);
            let mut src = complement(tr, co + doff, cnt);
            src.resize(n * sz, 0x77);
            // SAFETY: src is a live local buffer of n * sz bytes.
            let ss = unsafe { VolatileSlice::new(src.as_mut_ptr(), n * sz) };
            let ar = ss.get_array_ref::<T>(0, n).map_err(|e| format!("{:?}", e))?;
            note!(cx, "extern array::<{}>[{}].copy_to_volatile_slice(slice[{}..+{}])", T::NAME, n, doff, dlen);
            ar.copy_to_volatile_slice(dst);
            if cnt > 0 {
                rep.written.push((ri, co + doff, cnt));
                classify_write(tr, co + doff, cnt, cx);
            } else {
                rep.is_write = false;
            }
        }
        0 => {
            // get_ref(o).store
            if sl < sz {
                rep.is_write = false;
                let r = s.get_ref::<T>(0);
                ensure!(r.is_err(), "get_ref beyond the slice succeeded");
                note!(cx, "get_ref::<{}> rejected", T::NAME);
                cx.nt("rejected_request");
                return Ok(rep);
            }
            let o = t.idx(sl - sz + 1);
            let data = complement(tr, co + o, sz);
            note!(cx, "get_ref::<{}>({}).store", T::NAME, o);
            s.get_ref::<T>(o).map_err(|e| format!("get_ref: {:?}", e))?.store(T::from_b(&data));
            rep.written.push((ri, co + o, sz));
        }
        1 | 2 => {
            // array ref: store(i) / ref_at(i).store / copy_from
            let maxn = sl / sz;
            let o = if maxn == 0 { 0 } else { t.idx(sl - sz + 1) };
            let n = (sl - o) / sz;
            let n = if n == 0 { 0 } else { 1 + t.idx(n) };
            let ar = s.get_array_ref::<T>(o, n).map_err(|e| format!("get_array_ref({}, {}): {:?}", o, n, e))?;
            if n == 0 {
                rep.is_write = false;
                note!(cx, "array::<{}>({},0)", T::NAME, o);
                return Ok(rep);
            }
            match t.below(3) {
                0 => {
                    let i = t.idx(n);
                    let data = complement(tr, co + o + i * sz, sz);
                    note!(cx, "array::<{}>({},{}).store({})", T::NAME, o, n, i);
                    ar.store(i, T::from_b(&data));
                    rep.written.push((ri, co + o + i * sz, sz));
                }
                1 => {
                    let i = t.idx(n);
                    let data = complement(tr, co + o + i * sz, sz);
                    note!(cx, "array::<{}>({},{}).ref_at({}).store", T::NAME, o, n, i);
                    ar.ref_at(i).store(T::from_b(&data));
                    rep.written.push((ri, co + o + i * sz, sz));
                }
                _ => {
                    let bl = match t.below(3) {
                        0 => n,
                        1 => n + 1 + t.idx(2),
                        _ => t.idx(n + 1),
                    };
                    let k = bl.min(n);
                    let data = complement(tr, co + o, k * sz);
                    let mut buf: Vec<T> = (0..k).map(|i| T::from_b(&data[i * sz..])).collect();
                    while buf.len() < bl {
                        buf.push(T::from_b(&[0x77; 16]));
                    }
                    note!(cx, "array::<{}>({},{}).copy_from(buf of {})", T::NAME, o, n, bl);
                    ar.copy_from(&buf);
                    if k > 0 {
                        rep.written.push((ri, co + o, k * sz));
                    } else {
                        rep.is_write = false;
                    }
                }
            }
        }
        3 => {
            // slice.copy_from::<T>
            let n = sl / sz;
            let bl = match t.below(3) {
                0 => n,
                1 => n + 1 + t.idx(2),
                _ => t.idx(n + 1),
            };
            let k = bl.min(n);
            let data = complement(tr, co, k * sz);
            let mut buf: Vec<T> = (0..k).map(|i| T::from_b(&data[i * sz..])).collect();
            while buf.len() < bl {
                buf.push(T::from_b(&[0x77; 16]));
            }
            note!(cx, "slice.copy_from::<{}>(buf of {})", T::NAME, bl);
            s.copy_from(&buf);
            if k > 0 {
                rep.written.push((ri, co, k * sz));
            } else {
                rep.is_write = false;
            }
        }
        _ => {
            // typed reads: get_ref.load, array load/copy_to, slice copy_to
            rep.is_write = false;
            note!(cx, "typed reads::<{}>", T::NAME);
            if sl >= sz {
                let o = t.idx(sl - sz + 1);
                let _ = s.get_ref::<T>(o).map_err(|e| format!("{:?}", e))?.load();
                let n = (sl - o) / sz;
                let ar = s.get_array_ref::<T>(o, n).map_err(|e| format!("{:?}", e))?;
                let _ = ar.load(t.idx(n));
                let mut buf = vec![T::from_b(&[0; 16]); n + 1];
                let _ = ar.copy_to(&mut buf);
                let _ = ar.to_slice();
                let _ = ar.ref_at(0).to_slice();
            }
            let mut buf = vec![T::from_b(&[0; 16]); sl / sz + 1];
            let _ = s.copy_to(&mut buf);
            cx.nt("read_type_op");
        }
    }
    Ok(rep)
}

fn slice_op<B: BitmapSlice>(s: &VolatileSlice<'_, B>, tr: &Track, ri: usize, co: usize, t: &mut Tape, cx: &mut Cx) -> Result<OpReport, String> {
    let sl = s.len();
    let mut rep = OpReport { written: vec![], failed_fd_target: None, is_write: true };
    let op = t.below(16);
    match op {
        0 | 1 | 2 => {
            // write / write_slice / write_obj
            let off = match t.below(6) {
                0 => sl,
                1 => sl + 1 + t.idx(3),
                _ => t.idx(sl + 1),
            };
            let rem = sl.saturating_sub(off);
            let (len, ty) = if op == 2 { let ty = t.idx(NOBJ); (OBJ_SIZES[ty], ty) } else {
                (match t.below(5) { 0 => rem, 1 => rem + 1 + t.idx(3), 2 => rem.saturating_sub(1), _ => 1 + t.idx(24) }.max(1), 0)
            };
            let n = len.min(rem);
            let mut data = complement(tr, co + off.min(sl), n);
            data.resize(len, 0x77);
            let r = match op {
                0 => {
                    note!(cx, "write({} @ {})", len, off);
                    s.write(&data, off).map(|_| ())
                }
                1 => {
                    note!(cx, "write_slice({} @ {})", len, off);
                    s.write_slice(&data, off)
                }
                _ => {
                    note!(cx, "write_obj::<{}>(@ {})", OBJ_NAMES[ty], off);
                    write_obj_sel(s, ty, &data, off)
                }
            };
            if n > 0 {
                rep.written.push((ri, co + off, n));
                classify_write(tr, co + off, n, cx);
            } else {
                ensure!(r.is_err(), "write at/past the end succeeded");
                rep.is_write = false;
                cx.nt("rejected_request");
            }
        }
        3 => {
            // atomic store (aligned or rejected)
            let ty = t.idx(NATOM);
            let sz = ATOM_SIZES[ty];
            let off = t.idx(sl + 2);
            let fits = off + sz <= sl;
            let aligned = (tr.host as usize + co + off) % sz == 0;
            let data = if fits { complement(tr, co + off, sz) } else { vec![0x77; 8] };
            note!(cx, "store::<{}>(@ {})", ATOM_NAMES[ty], off);
            let r = store_sel(s, ty, &data, off, std::sync::atomic::Ordering::SeqCst);
            if fits && aligned {
                r.map_err(|e| format!("aligned store failed: {:?}", e))?;
                rep.written.push((ri, co + off, sz));
                classify_write(tr, co + off, sz, cx);
            } else {
                ensure!(r.is_err(), "misaligned/out-of-range store succeeded");
                rep.is_write = false;
                cx.nt("rejected_request");
            }
        }
        4 | 5 | 6 => {
            let sel = t.idx(NPOD);
            return with_pod!(sel, typed_write, s, tr, ri, co, t, cx);
        }
        7 => {
            // another slice -> copy_to_volatile_slice(sub of s)
            let doff = t.idx(sl + 1);
            let dlen = t.idx(sl - doff + 1);
            let dst = s.subslice(doff, dlen).map_err(|e| format!("{:?}", e))?;
            let srclen = match t.below(3) { 0 => dlen, 1 => dlen + 1 + t.idx(4), _ => t.idx(dlen + 1) };
            let cnt = srclen.min(dlen);
            let mut src = complement(tr, co + doff, cnt);
            src.resize(srclen, 0x77);
            // SAFETY: src is a live local buffer.
            let ss = unsafe { VolatileSlice::new(src.as_mut_ptr(), srclen) };
            if t.flag() {
                note!(cx, "extern[{}].copy_to_volatile_slice(slice[{}..+{}])", srclen, doff, dlen);
                ss.copy_to_volatile_slice(dst);
            } else {
                note!(cx, "extern array[{}].copy_to_volatile_slice(slice[{}..+{}])", srclen, doff, dlen);
                let ar = ss.get_array_ref::<u8>(0, srclen).map_err(|e| format!("{:?}", e))?;
                ar.copy_to_volatile_slice(dst);
            }
            if cnt > 0 {
                rep.written.push((ri, co + doff, cnt));
                classify_write(tr, co + doff, cnt, cx);
            } else {
                rep.is_write = false;
            }
        }
        8 | 9 => {
            // read_volatile_from / read_exact_volatile_from (stream into memory)
            let off = t.idx(sl + 1);
            let rem = sl - off;
            let count = match t.below(4) { 0 => rem, 1 => rem + 1 + t.idx(3), _ => t.idx(rem + 1) }.max(1);
            let srclen = match t.below(3) { 0 => count, 1 => count + 2, _ => t.idx(count + 1) };
            let exact = op == 9;
            let use_file = t.chance(1, 3);
            // what will be stored
            let n = if exact {
                if count <= rem { count.min(srclen) } else { 0 }
            } else {
                count.min(rem).min(srclen)
            };
            let mut data = complement(tr, co + off, n.min(rem));
            data.resize(srclen, 0x77);
            note!(cx, "{}(@ {}, src {} len {}, count {})", if exact { "read_exact_volatile_from" } else { "read_volatile_from" }, off, if use_file { "File" } else { "&[u8]" }, srclen, count);
            // For the exact form with a short source the library may store the available prefix
            // before failing; account for it.
            let stored = if exact && count <= rem { count.min(srclen) } else { n };
            if use_file {
                use std::os::unix::fs::FileExt;
                let mut f = memfd(0);
                f.write_all_at(&data, 0).map_err(|e| e.to_string())?;
                if exact { let _ = s.read_exact_volatile_from(off, &mut f, count); } else { let _ = s.read_volatile_from(off, &mut f, count); }
            } else {
                let mut src: &[u8] = &data[..];
                if exact {
                    // &[u8]::read_exact_volatile refuses up front when the source is too short
                    let r = s.read_exact_volatile_from(off, &mut src, count);
                    if count <= rem && srclen < count {
                        ensure!(r.is_err(), "read_exact from a too-short source succeeded");
                        rep.is_write = false;
                        cx.nt("rejected_request");
                        return Ok(rep);
                    }
                } else {
                    let _ = s.read_volatile_from(off, &mut src, count);
                }
            }
            if stored > 0 {
                rep.written.push((ri, co + off, stored));
                classify_write(tr, co + off, stored, cx);
                cx.label("stream_into_memory");
            } else {
                rep.is_write = false;
            }
        }
        10 => {
            // the in-memory adapters called directly on a sub-slice
            let off = t.idx(sl + 1);
            let len = t.idx(sl - off + 1);
            let mut sub = s.subslice(off, len).map_err(|e| format!("{:?}", e))?;
            let srclen = match t.below(3) { 0 => len, 1 => len + 3, _ => t.idx(len + 1) };
            let n = srclen.min(len);
            let mut data = complement(tr, co + off, n);
            data.resize(srclen, 0x77);
            if t.flag() {
                note!(cx, "<&[u8]>::read_volatile(slice[{}..+{}]) src len {}", off, len, srclen);
                let mut src: &[u8] = &data[..];
                src.read_volatile(&mut sub).map_err(|e| format!("{:?}", e))?;
            } else {
                note!(cx, "Cursor::read_volatile(slice[{}..+{}]) src len {}", off, len, srclen);
                let mut c = std::io::Cursor::new(&data[..]);
                c.read_volatile(&mut sub).map_err(|e| format!("{:?}", e))?;
            }
            if n > 0 {
                rep.written.push((ri, co + off, n));
                classify_write(tr, co + off, n, cx);
            } else {
                rep.is_write = false;
            }
        }
        11 => {
            // failing descriptor read: must (C05) / may (C16) report the whole target
            let off = t.idx(sl + 1);
            let len = t.idx(sl - off + 1);
            if len == 0 {
                rep.is_write = false;
                return Ok(rep);
            }
            let mut sub = s.subslice(off, len).map_err(|e| format!("{:?}", e))?;
            let mut f = wo_file();
            note!(cx, "failing File::read_volatile(slice[{}..+{}])", off, len);
            let r = f.read_volatile(&mut sub);
            ensure!(r.is_err(), "read from a write-only descriptor succeeded");
            rep.failed_fd_target = Some((ri, co + off, len));
            rep.is_write = false;
            cx.nt("failing_descriptor_read");
        }
        _ => {
            // read-type operations
            rep.is_write = false;
            let off = t.idx(sl + 2);
            let len = 1 + t.idx(24);
            let mut buf = vec![0u8; len];
            note!(cx, "read-type ops @ {} len {}", off, len);
            let _ = s.read(&mut buf, off);
            let _ = s.read_slice(&mut buf, off);
            let _ = read_obj_sel(s, t.idx(NOBJ), off);
            let _ = load_sel(s, t.idx(NATOM), off, std::sync::atomic::Ordering::SeqCst);
            let mut v: Vec<u8> = Vec::new();
            let _ = s.write_volatile_to(off, &mut v, len);
            let _ = s.write_all_volatile_to(off, &mut v, len);
            let mut f = memfd(0);
            let _ = s.write_volatile_to(off, &mut f, len);
            // a descriptor that cannot be written (opened read-only): the write fails
            let mut rof = std::fs::File::open("/dev/null").map_err(|e| e.to_string())?;
            let _ = s.write_volatile_to(off, &mut rof, len);
            let _ = s.write_all_volatile_to(off, &mut rof, len);
            if off <= sl {
                let sub = s.subslice(off, (sl - off).min(len)).map_err(|e| format!("{:?}", e))?;
                let _ = v.write_volatile(&sub);
                let _ = f.write_volatile(&sub);
                let mut dstbuf = vec![0u8; len];
                // SAFETY: live local buffer.
                let d = unsafe { VolatileSlice::new(dstbuf.as_mut_ptr(), len) };
                sub.copy_to_volatile_slice(d);
                let _ = sub.ptr_guard();
                let _ = sub.bitmap();
                let _ = sub.offset(0);
                let _ = sub.split_at(0);
            }
            let _ = s.get_slice(off, len);
            let _ = s.get_ref::<u64>(off);
            // plain references into memory that is only mapped on demand are the caller's
            // business (DESIGN.md 9.2): not generated there
            if !(tr.raw.is_some() && tr.host.is_null()) {
                let _ = s.get_atomic_ref::<std::sync::atomic::AtomicU32>(off);
            }
            cx.nt("read_type_op");
        }
    }
    Ok(rep)
}

/// Derive an accessor from `root` through a chain of in-range derivations; returns the composed
/// offset. Calls `f` with the final slice.
fn with_chain<B: BitmapSlice, R>(root: &VolatileSlice<'_, B>, origin: usize, t: &mut Tape, cx: &mut Cx, f: &mut dyn FnMut(&VolatileSlice<'_, B>, usize, &mut Tape, &mut Cx) -> R) -> Result<R, String> {
    fn rec<B: BitmapSlice, R>(cur: &VolatileSlice<'_, B>, co: usize, depth: usize, left: usize, t: &mut Tape, cx: &mut Cx, f: &mut dyn FnMut(&VolatileSlice<'_, B>, usize, &mut Tape, &mut Cx) -> R) -> Result<R, String> {
        if left == 0 {
            if depth >= 2 {
                cx.nt("chain_depth_ge_2");
            }
            return Ok(f(cur, co, t, cx));
        }
        let len = cur.len();
        match t.below(5) {
            0 => {
                let o = t.idx(len + 1);
                let c = t.idx(len - o + 1);
                note!(cx, "subslice({},{})", o, c);
                let s = cur.subslice(o, c).map_err(|e| format!("subslice: {:?}", e))?;
                rec(&s, co + o, depth + 1, left - 1, t, cx, f)
            }
            1 => {
                let o = t.idx(len + 1);
                note!(cx, "offset({})", o);
                let s = cur.offset(o).map_err(|e| format!("offset: {:?}", e))?;
                rec(&s, co + o, depth + 1, left - 1, t, cx, f)
            }
            2 => {
                let m = t.idx(len + 1);
                let (a, b) = cur.split_at(m).map_err(|e| format!("split_at: {:?}", e))?;
                if t.flag() {
                    note!(cx, "split_at({}).0", m);
                    rec(&a, co, depth + 1, left - 1, t, cx, f)
                } else {
                    note!(cx, "split_at({}).1", m);
                    rec(&b, co + m, depth + 1, left - 1, t, cx, f)
                }
            }
            3 => {
                let o = t.idx(len + 1);
                let c = t.idx(len - o + 1);
                note!(cx, "get_slice({},{})", o, c);
                let s = cur.get_slice(o, c).map_err(|e| format!("get_slice: {:?}", e))?;
                rec(&s, co + o, depth + 1, left - 1, t, cx, f)
            }
            _ => {
                // through an element array and back
                let o = t.idx(len + 1);
                let n = t.idx(len - o + 1);
                note!(cx, "get_array_ref::<u8>({},{}).to_slice()", o, n);
                let a = cur.get_array_ref::<u8>(o, n).map_err(|e| format!("get_array_ref: {:?}", e))?;
                let s = a.to_slice();
                rec(&s, co + o, depth + 1, left - 1, t, cx, f)
            }
        }
    }
    let depth = t.idx(4);
    rec(root, origin, 0, depth, t, cx, f)
}

/// `must[i][p]`: page p of track i was written since it was last reset - it has to be dirty.
fn maybe_reset(tracks: &[Track], must: &mut [Vec<bool>], t: &mut Tape, cx: &mut Cx) {
    if t.chance(1, 5) {
        let ti = t.idx(tracks.len());
        let tr = &tracks[ti];
        match t.below(4) {
            3 => {
                // one page only: preferably one that has to be dirty right now (the page of the
                // most recent writes), otherwise any index up to one past the end
                let marked: Vec<usize> = must[ti].iter().enumerate().filter(|(_, m)| **m).map(|(p, _)| p).collect();
                let p = if !marked.is_empty() && t.chance(2, 3) { marked[t.idx(marked.len())] } else { t.idx(tr.bm.len() + 1) };
                tr.bm.reset_bit(p);
                if let Some(b) = must[ti].get_mut(p) {
                    *b = false;
                }
                note!(cx, "reset_bit({})", p);
            }
            0 => {
                tr.bm.reset();
                must[ti].iter_mut().for_each(|b| *b = false);
                note!(cx, "reset()");
            }
            1 => {
                // the harvest is the report: it names every page written since the last reset
                let words = tr.bm.get_and_reset();
                for (p, m) in must[ti].iter().enumerate() {
                    if *m && !(words.get(p / 64).map(|w| w >> (p % 64) & 1 == 1).unwrap_or(false)) {
                        cx.pending_failure = Some(format!("get_and_reset() does not report page {} of region {} (page size {}), which was written since the last reset", p, ti, tr.page));
                    }
                }
                must[ti].iter_mut().for_each(|b| *b = false);
                note!(cx, "get_and_reset()");
            }
            _ => {
                // whole pages, a range ending exactly at a page end, or anything
                let (s, l) = match t.below(3) {
                    0 => {
                        let p = t.idx(tr.bm.len() + 1);
                        (p * tr.page, tr.page * (1 + t.idx(2)))
                    }
                    1 => {
                        let s = t.idx(tr.size + tr.base + 1);
                        (s, (tr.page - s % tr.page) + tr.page * t.idx(2))
                    }
                    _ => (t.idx(tr.size + tr.base + 1), 1 + t.idx(tr.size + 1)),
                };
                tr.bm.reset_addr_range(s, l);
                for p in s / tr.page..=(s + l - 1) / tr.page {
                    if let Some(b) = must[ti].get_mut(p) {
                        *b = false;
                    }
                }
                note!(cx, "reset_addr_range({}, {})", s, l);
            }
        }
        cx.nt("after_reset");
    }
}

/// Everything written since its page was last reset is still reported dirty.
fn carry_marks(tracks: &[Track], before_b: &[Vec<u8>], must: &mut [Vec<bool>], what: &str) -> Result<(), String> {
    for (ri, tr) in tracks.iter().enumerate() {
        let after_b = tr.bytes();
        let after_p = tr.pages();
        for o in 0..tr.size {
            if after_b[o] != before_b[ri][o] {
                if let Some(b) = must[ri].get_mut(tr.page_of(o)) {
                    *b = true;
                }
            }
        }
        for (p, m) in must[ri].iter().enumerate() {
            if *m && !after_p.get(p).copied().unwrap_or(false) {
                return Err(format!("{}: page {} of region {} (page size {}, bitmap base {}) was written earlier and not reset since, but it is reported clean now", what, p, ri, tr.page, tr.base));
            }
        }
    }
    Ok(())
}

/// `origin` = offset of the root slice inside the tracked region.
fn drive_slice<B: BitmapSlice>(mode: Mode, root: &VolatileSlice<'_, B>, origin: usize, tracks: &[Track], t: &mut Tape, cx: &mut Cx) -> Result<(), String> {
    let nops = 1 + t.idx(12);
    let mut must: Vec<Vec<bool>> = tracks.iter().map(|x| vec![false; x.pages().len()]).collect();
    for step in 0..nops {
        if t.exhausted() && step > 0 {
            break;
        }
        maybe_reset(tracks, &mut must, t, cx);
        if let Some(e) = cx.pending_failure.take() {
            return Err(e);
        }
        let before_b: Vec<Vec<u8>> = tracks.iter().map(|x| x.bytes()).collect();
        let before_p: Vec<Vec<bool>> = tracks.iter().map(|x| x.pages()).collect();
        let mut desc_mark = 0usize;
        if cx.verbose {
            desc_mark = cx.desc.len();
        }
        let rep = with_chain(root, origin, t, cx, &mut |s, co, t, cx| slice_op(s, &tracks[0], 0, co, t, cx))??;
        let what = if cx.verbose { cx.desc[desc_mark..].to_string() } else { format!("step {}", step) };
        judge(mode, tracks, &before_b, &before_p, &rep, &what)?;
        carry_marks(tracks, &before_b, &mut must, &what)?;
    }
    Ok(())
}

// ---------------------------------------------------------------------------------------------
// levels

fn gen_page(t: &mut Tape, size: usize) -> usize {
    match t.below(9) {
        0 => 1,
        1 => 2,
        2 => 3,
        3 => 8,
        4 => 16,
        5 => 1 + t.idx(size.max(1)),
        6 => size.max(1),
        7 => size * 3 + 1,
        _ => 64,
    }
}

pub fn run_bare(mode: Mode, t: &mut Tape, cx: &mut Cx) -> Result<(), String> {
    let size = 1 + t.idx(200);
    let page = gen_page(t, size);
    let fr = Framed::new(size, t.idx(16));
    let flavour = t.below(4);
    // sliced flavours live at a non-zero base inside a larger bitmap
    let base = if flavour >= 2 { 1 + t.idx(3 * page + 5) } else { 0 };
    let total = base + size + t.idx(2 * page);
    let bm = if t.chance(1, 4) {
        // a bitmap that was created smaller and grown to its size
        let first = t.idx(total + 1);
        let mut b = AtomicBitmap::new(first, NonZeroUsize::new(page).unwrap());
        b.enlarge(total - first);
        cx.nt("enlarged_bitmap");
        note!(cx, "bitmap created for {} bytes and enlarged by {}", first, total - first);
        Arc::new(b)
    } else {
        Arc::new(AtomicBitmap::new(total, NonZeroUsize::new(page).unwrap()))
    };
    let tracks = [Track { bm: &bm, base, page, host: fr.ptr(), size, raw: None }];
    note!(cx, "bare slice of {} bytes, page {}, flavour {}, bitmap base {}", size, page, ["RefSlice", "Option<RefSlice>", "RefSlice@base", "ArcSlice@base"][flavour as usize], base);
    if page == 1 {
        cx.label("page_size_1");
    }
    if page > size {
        cx.label("page_larger_than_region");
    }
    // SAFETY (all four): fr.ptr()..+size is live for the whole case.
    match flavour {
        0 | 2 => {
            let root = unsafe { VolatileSlice::with_bitmap(fr.ptr(), size, bm.slice_at(base), None) };
            drive_slice(mode, &root, 0, &tracks, t, cx)?;
        }
        1 => {
            let root = unsafe { VolatileSlice::with_bitmap(fr.ptr(), size, Some(bm.slice_at(base)), None) };
            cx.label("optional_bitmap");
            drive_slice(mode, &root, 0, &tracks, t, cx)?;
        }
        _ => {
            let sl: ArcSlice<AtomicBitmap> = ArcSlice::new(bm.clone(), base);
            let root = unsafe { VolatileSlice::with_bitmap(fr.ptr(), size, sl, None) };
            cx.label("arc_slice_bitmap");
            drive_slice(mode, &root, 0, &tracks, t, cx)?;
        }
    }
    fr.canaries_ok()
}

#[cfg(not(feature = "xen"))]
fn tracked_region(size: usize, page: usize) -> Result<vm_memory::MmapRegion<AtomicBitmap>, String> {
    use vm_memory::mmap::MmapRegionBuilder;
    MmapRegionBuilder::new_with_bitmap(size, AtomicBitmap::new(size, NonZeroUsize::new(page).unwrap()))
        .with_mmap_prot(libc::PROT_READ | libc::PROT_WRITE)
        .with_mmap_flags(libc::MAP_ANONYMOUS | libc::MAP_PRIVATE)
        .build()
        .map_err(|e| format!("MmapRegionBuilder: {:?}", e))
}

/// The other constructors of a tracked region: the bitmap is the one the library creates for the
/// region (one bit per system page).
#[cfg(not(feature = "xen"))]
fn library_tracked_region(size: usize, which: u64) -> Result<(vm_memory::MmapRegion<AtomicBitmap>, Option<usize>), String> {
    use vm_memory::{FileOffset, MmapRegion};
    let prot = libc::PROT_READ | libc::PROT_WRITE;
    Ok(match which {
        0 => (MmapRegion::<AtomicBitmap>::new(size).map_err(|e| format!("MmapRegion::new: {:?}", e))?, None),
        1 => (MmapRegion::<AtomicBitmap>::from_file(FileOffset::new(memfd(size.div_ceil(4096) as u64 * 4096), 0), size).map_err(|e| format!("from_file: {:?}", e))?, None),
        2 => (MmapRegion::<AtomicBitmap>::build(None, size, prot, libc::MAP_ANONYMOUS | libc::MAP_PRIVATE).map_err(|e| format!("build: {:?}", e))?, None),
        _ => {
            let len = size.div_ceil(4096) * 4096;
            // SAFETY: harness-owned anonymous mapping, released by the caller after the region is gone.
            let p = unsafe { libc::syscall(libc::SYS_mmap, 0usize, len, prot, libc::MAP_PRIVATE | libc::MAP_ANONYMOUS, -1isize, 0usize) } as usize;
            ensure!(p != usize::MAX, "HARNESS-PANIC: mmap failed");
            // SAFETY: the mapping outlives the region.
            let r = unsafe { MmapRegion::<AtomicBitmap>::build_raw(p as *mut u8, size, prot, libc::MAP_PRIVATE | libc::MAP_ANONYMOUS) }.map_err(|e| format!("build_raw: {:?}", e))?;
            (r, Some(p))
        }
    })
}

#[cfg(not(feature = "xen"))]
pub fn run_region(mode: Mode, t: &mut Tape, cx: &mut Cx) -> Result<(), String> {
    if t.chance(1, 3) {
        // regions whose bitmap the library creates itself
        let which = t.below(4);
        let size = t.pick(&[4096usize + 17, 2 * 4096, 3 * 4096 - 1, 3 * 4096, 300, 4096]);
        let (r, raw) = library_tracked_region(size, which)?;
        note!(cx, "MmapRegion::<AtomicBitmap>::{} of {} bytes (library-created bitmap)", ["new", "from_file", "build", "build_raw"][which as usize], size);
        cx.label("mmap_region_level");
        cx.nt("library_created_bitmap");
        let res = {
            let tracks = [Track { bm: r.bitmap(), base: 0, page: 4096, host: r.as_ptr(), size, raw: None }];
            ensure!(r.bitmap().len() == size.div_ceil(4096), "the region's bitmap has {} pages for {} bytes", r.bitmap().len(), size);
            if t.flag() {
                let root = r.as_volatile_slice();
                drive_slice(mode, &root, 0, &tracks, t, cx)
            } else {
                let o = t.idx(size + 1);
                let c = t.idx(size - o + 1);
                note!(cx, "root = region.get_slice({}, {})", o, c);
                cx.nt("root_is_region_window");
                let root = r.get_slice(o, c).map_err(|e| format!("region.get_slice({},{}): {:?}", o, c, e))?;
                drive_slice(mode, &root, o, &tracks, t, cx)
            }
        };
        drop(r);
        if let Some(p) = raw {
            // SAFETY: releasing the harness mapping.
            unsafe { libc::syscall(libc::SYS_munmap, p, size.div_ceil(4096) * 4096) };
        }
        return res;
    }
    let size = match t.below(4) {
        0 => 4096 + t.idx(20),
        _ => 1 + t.idx(300),
    };
    let page = if size > 1000 { t.pick(&[64usize, 100, 4096, 8192, 1000]) } else { gen_page(t, size) };
    let r = tracked_region(size, page)?;
    note!(cx, "MmapRegion of {} bytes with its own bitmap, page {}", size, page);
    cx.label("mmap_region_level");
    let tracks = [Track { bm: r.bitmap(), base: 0, page, host: r.as_ptr(), size, raw: None }];
    if t.flag() {
        let root = r.as_volatile_slice();
        drive_slice(mode, &root, 0, &tracks, t, cx)
    } else {
        // a window of the region obtained from the region itself
        let o = t.idx(size + 1);
        let c = t.idx(size - o + 1);
        note!(cx, "root = region.get_slice({}, {})", o, c);
        cx.nt("root_is_region_window");
        let root = r.get_slice(o, c).map_err(|e| format!("region.get_slice({},{}): {:?}", o, c, e))?;
        drive_slice(mode, &root, o, &tracks, t, cx)
    }
}

/// xen build: a region of every emulated kind with the bitmap the library gives it (one bit per
/// 4096 bytes); the region-wide slice carries the region's bitmap and, for grant regions mapped
/// on demand, the mapping information instead of a host pointer.
#[cfg(feature = "xen")]
pub fn run_region(mode: Mode, t: &mut Tape, cx: &mut Cx) -> Result<(), String> {
    use crate::xen_emul::{build as xbuild, gen_kind, reset, Kind as XKind};
    reset();
    let kind = gen_kind(t);
    let size = t.pick(&[4096usize + 17, 2 * 4096, 3 * 4096 - 1, 3 * 4096, 300, 4096]);
    let base = 0x1000 * (1 + t.below(4));
    let xr = xbuild::<AtomicBitmap>(kind, base, size)?;
    note!(cx, "{:?} region of {} bytes with the bitmap the library created", kind, size);
    cx.label("mmap_region_level");
    cx.nt("xen_region_level");
    if kind == XKind::GrantOnDemand {
        cx.nt("xen_on_demand_region");
    }
    let raw = || xr.raw_read();
    let host = if kind == XKind::GrantOnDemand { std::ptr::null_mut() } else { xr.region.as_ptr() };
    let tracks = [Track { bm: xr.region.bitmap(), base: 0, page: 4096, host, size, raw: Some(&raw) }];
    if t.flag() {
        let root = xr.region.as_volatile_slice().map_err(|e| format!("as_volatile_slice: {:?}", e))?;
        drive_slice(mode, &root, 0, &tracks, t, cx)?;
    } else {
        let o = t.idx(size + 1);
        let c = t.idx(size - o + 1);
        note!(cx, "root = region.get_slice({}, {})", o, c);
        cx.nt("root_is_region_window");
        let root = xr.region.get_slice(vm_memory::MemoryRegionAddress(o as u64), c).map_err(|e| format!("region.get_slice({},{}): {:?}", o, c, e))?;
        drive_slice(mode, &root, o, &tracks, t, cx)?;
    }
    ensure!(crate::xen_emul::live().len() <= 1, "temporary windows remain after the case: {:x?}", crate::xen_emul::live());
    Ok(())
}

type RawView = Box<dyn Fn() -> Vec<u8>>;

/// Guest-memory level: 2..3 regions, each with its own bitmap and page size.
#[cfg(not(feature = "xen"))]
fn build_guest(t: &mut Tape, cx: &mut Cx) -> Result<(GuestMemoryMmap<AtomicBitmap>, Layout, Vec<usize>, Vec<Option<RawView>>), String> {
    let lay = gen_layout(t, 3, TopMode::Mmap, false);
    let mut regions = Vec::new();
    let mut pages = Vec::new();
    let mut raws = Vec::new();
    for &(s, l) in &lay.regs {
        let page = gen_page(t, l as usize);
        pages.push(page);
        let r = tracked_region(l as usize, page)?;
        regions.push(GuestRegionMmap::new(r, GuestAddress(s)).map_err(|e| format!("{:?}", e))?);
        raws.push(None);
    }
    let mem = GuestMemoryMmap::from_regions(regions).map_err(|e| format!("{:?}", e))?;
    note!(cx, "guest memory {} page sizes {:?}", lay.describe(), pages);
    Ok((mem, lay, pages, raws))
}

/// xen build: 2..3 emulated regions of generated kinds (Unix, foreign, grant mapped in advance or
/// on demand), page-granular bases, some adjacent, each with the library's bitmap (4096-byte
/// pages).
#[cfg(feature = "xen")]
fn build_guest(t: &mut Tape, cx: &mut Cx) -> Result<(GuestMemoryMmap<AtomicBitmap>, Layout, Vec<usize>, Vec<Option<RawView>>), String> {
    use crate::xen_emul::{build as xbuild, gen_kind, reset, Kind as XKind};
    reset();
    let n = 2 + t.idx(2);
    let mut lay = Layout { regs: vec![] };
    let mut regions = Vec::new();
    let mut raws: Vec<Option<RawView>> = Vec::new();
    let mut next = 0x4000u64;
    let mut desc = String::new();
    for _ in 0..n {
        let kind = gen_kind(t);
        let size = t.pick(&[4096usize, 2 * 4096, 4096 + 17, 3 * 4096 - 1, 300, 2 * 4096]);
        // adjacent to the previous region where that ended on a page boundary, else after a gap
        let base = if next % 4096 == 0 && t.flag() { next } else { (next + 0x2fff) & !0xfff };
        let xr = xbuild::<AtomicBitmap>(kind, base, size)?;
        desc.push_str(&format!("{:?}@{:#x}+{:#x} ", kind, base, size));
        if kind == XKind::GrantOnDemand {
            cx.nt("xen_on_demand_region");
        }
        lay.regs.push((base, size as u64));
        next = base + size as u64;
        let crate::xen_emul::XenRegion { region, file, .. } = xr;
        let host = region.as_ptr() as usize;
        raws.push(Some(match file {
            Some((f, off)) => Box::new(move || pread_all(&f, off, size)),
            // SAFETY: anonymous unix mapping of `size` bytes, alive as long as the memory object.
            None => Box::new(move || (0..size).map(|i| unsafe { ((host + i) as *const u8).read_volatile() }).collect()),
        }));
        regions.push(Arc::new(region));
    }
    let mem = GuestMemoryMmap::from_arc_regions(regions).map_err(|e| format!("{:?}", e))?;
    note!(cx, "xen guest memory {}", desc);
    cx.nt("xen_guest_level");
    Ok((mem, lay, vec![4096; n], raws))
}

pub fn run_guest(mode: Mode, t: &mut Tape, cx: &mut Cx) -> Result<(), String> {
    let (mem, lay, pages, raws) = build_guest(t, cx)?;
    cx.label("guest_memory_level");
    let tracks: Vec<Track> = mem
        .iter()
        .enumerate()
        .map(|(i, r)| Track { bm: r.bitmap(), base: 0, page: pages[i], host: r.as_ptr(), size: r.len() as usize, raw: raws[i].as_ref().map(|b| &**b as &dyn Fn() -> Vec<u8>) })
        .collect();
    let pts = lay.points();
    let nops = 1 + t.idx(12);
    let mut must: Vec<Vec<bool>> = tracks.iter().map(|x| vec![false; x.pages().len()]).collect();
    for step in 0..nops {
        if t.exhausted() && step > 0 {
            break;
        }
        maybe_reset(&tracks, &mut must, t, cx);
        if let Some(e) = cx.pending_failure.take() {
            return Err(e);
        }
        let before_b: Vec<Vec<u8>> = tracks.iter().map(|x| x.bytes()).collect();
        let before_p: Vec<Vec<bool>> = tracks.iter().map(|x| x.pages()).collect();
        let a = t.addr_near(&pts);
        let ga = GuestAddress(a);
        let run = lay.run(a).min(4096) as usize;
        let mut rep = OpReport { written: vec![], failed_fd_target: None, is_write: true };
        // the ranges a transfer of n bytes from `a` covers
        let ranges = |n: usize| -> Written {
            let mut v = Vec::new();
            let mut cur = a;
            let mut left = n;
            while left > 0 {
                let i = lay.find(cur).unwrap();
                let off = (cur - lay.regs[i].0) as usize;
                let k = left.min(lay.regs[i].1 as usize - off);
                v.push((i, off, k));
                left -= k;
                cur = cur.wrapping_add(k as u64);
            }
            v
        };
        let comp = |n: usize| -> Vec<u8> {
            let mut d = Vec::new();
            for (i, off, k) in ranges(n) {
                d.extend(complement(&tracks[i], off, k));
            }
            d
        };
        let op = t.below(10);
        let len = crate::p03_flat::pick_len(t, run as u128, 300);
        let what;
        match op {
            9 => {
                // a slice obtained from guest memory, written through
                let i = lay.find(a);
                let inreg = i.map(|i| (lay.regs[i].0 + lay.regs[i].1 - a) as usize).unwrap_or(0);
                let n = len.min(inreg);
                what = format!("guest get_slice(@ {:#x}, {}) + write_slice through it", a, n);
                match mem.get_slice(ga, n) {
                    Ok(s) => {
                        ensure!(i.is_some(), "get_slice at an unmapped address succeeded");
                        let data = comp(n);
                        s.write_slice(&data, 0).map_err(|e| format!("write through a guest slice: {:?}", e))?;
                        rep.written = ranges(n);
                        cx.nt("guest_slice_write");
                    }
                    Err(_) => {
                        ensure!(i.is_none(), "{}: refused", what);
                        cx.nt("rejected_request");
                    }
                }
            }
            0 | 1 | 2 => {
                let (len, ty) = if op == 2 { let ty = t.idx(NOBJ); (OBJ_SIZES[ty], ty) } else { (len, 0) };
                let n = len.min(run);
                let mut data = comp(n);
                data.resize(len, 0x77);
                what = format!("guest {}({} @ {:#x}, run {})", ["write", "write_slice", "write_obj"][op as usize], len, a, run);
                let _ = match op {
                    0 => mem.write(&data, ga).map(|_| ()),
                    1 => mem.write_slice(&data, ga),
                    _ => write_obj_sel(&mem, ty, &data, ga),
                };
                rep.written = ranges(n);
                if rep.written.len() >= 2 {
                    cx.nt("region_straddling");
                }
            }
            3 => {
                let ty = t.idx(NATOM);
                let sz = ATOM_SIZES[ty];
                what = format!("guest store::<{}>(@ {:#x})", ATOM_NAMES[ty], a);
                let ok = lay.find(a).map(|i| {
                    let off = (a - lay.regs[i].0) as usize;
                    off + sz <= lay.regs[i].1 as usize && (tracks[i].host as usize + off) % sz == 0
                }).unwrap_or(false);
                let data = if ok { comp(sz) } else { vec![0x77; 8] };
                let r = store_sel(&mem, ty, &data, ga, std::sync::atomic::Ordering::SeqCst);
                if ok {
                    r.map_err(|e| format!("aligned guest store failed: {:?}", e))?;
                    rep.written = ranges(sz);
                } else {
                    ensure!(r.is_err(), "misaligned/unmapped guest store succeeded");
                    cx.nt("rejected_request");
                }
            }
            4 | 5 => {
                let srclen = match t.below(3) { 0 => len, 1 => len + 2, _ => t.idx(len + 1) };
                let n = len.min(run).min(srclen);
                let mut data = comp(n);
                data.resize(srclen, 0x77);
                what = format!("guest {}(@ {:#x}, src len {}, count {}, run {})", if op == 4 { "read_volatile_from" } else { "read_exact_volatile_from" }, a, srclen, len, run);
                if t.flag() {
                    let mut src: &[u8] = &data[..];
                    if op == 4 { let _ = mem.read_volatile_from(ga, &mut src, len); } else { let _ = mem.read_exact_volatile_from(ga, &mut src, len); }
                } else {
                    let mut cr = ChunkReader { data: data.clone(), pos: 0, chunk: 1 + t.idx(7), calls: 0 };
                    if op == 4 { let _ = mem.read_volatile_from(ga, &mut cr, len); } else { let _ = mem.read_exact_volatile_from(ga, &mut cr, len); }
                }
                rep.written = ranges(n);
                cx.label("stream_into_memory");
                if rep.written.len() >= 2 {
                    cx.nt("region_straddling");
                }
            }
            6 => {
                // failing descriptor read at guest level
                let n = len.min(run);
                what = format!("guest failing read_volatile_from(@ {:#x}, count {})", a, len);
                let mut f = wo_file();
                let r = mem.read_volatile_from(ga, &mut f, len);
                ensure!(r.is_err(), "guest read from a write-only descriptor succeeded");
                if n > 0 {
                    // only the first region chunk is attempted
                    let first = ranges(n)[0];
                    rep.failed_fd_target = Some(first);
                    cx.nt("failing_descriptor_read");
                }
                rep.is_write = false;
            }
            _ => {
                what = format!("guest read-type ops(@ {:#x}, len {})", a, len);
                rep.is_write = false;
                let mut buf = vec![0u8; len];
                let _ = mem.read(&mut buf, ga);
                let _ = mem.read_slice(&mut buf, ga);
                let _ = read_obj_sel(&mem, t.idx(NOBJ), ga);
                let _ = load_sel(&mem, t.idx(NATOM), ga, std::sync::atomic::Ordering::SeqCst);
                let mut v: Vec<u8> = Vec::new();
                let _ = mem.write_volatile_to(ga, &mut v, len);
                let _ = mem.write_all_volatile_to(ga, &mut v, len);
                let mut rof = std::fs::File::open("/dev/null").map_err(|e| e.to_string())?;
                let _ = mem.write_volatile_to(ga, &mut rof, len);
                let _ = mem.get_slice(ga, len);
                let _ = mem.check_range(ga, len);
                let _ = mem.get_host_address(ga);
                cx.nt("read_type_op");
            }
        }
        note!(cx, "{}", what);
        for &(i, off, k) in &rep.written {
            classify_write(&tracks[i], off, k, cx);
        }
        if rep.written.is_empty() {
            rep.is_write = false;
        }
        judge(mode, &tracks, &before_b, &before_p, &rep, &what)?;
        carry_marks(&tracks, &before_b, &mut must, &what)?;
    }
    Ok(())
}


#[allow(dead_code)]
fn _unused(_: Le32, _: Be64, _: RefSlice<'_, AtomicBitmap>) {}
