//! C12 (compile-time half): generated client programs. A grammar parent x accessor x escape
//! pattern yields an *escaping* program (the accessor would outlive the region/map/buffer it came
//! from) and its *control twin* (identical, but the accessor is used while the parent is alive).
//! Both are compiled with `rustc --emit=metadata` against the rlib built from the current /repo.
//! Oracle (metamorphic pair): the control compiles; the escaping variant is rejected, with
//! borrow-check errors only.

use crate::engine::*;
use crate::tape::Tape;
use crate::{ensure, note};
use std::process::Command;

struct Parent {
    name: &'static str,
    /// statements that create `parent` (and anything it needs, declared before)
    mk: &'static str,
    /// expression producing the root accessor from `parent` (may be empty: accessors use parent directly)
    accessors: &'static [(&'static str, &'static str)],
}

const SLICE_ACCESSORS: &[(&str, &str)] = &[
    ("slice", "let acc = s;"),
    ("subslice", "let acc = s.subslice(0, 8).unwrap();"),
    ("offset", "let acc = s.offset(8).unwrap();"),
    ("split_at", "let acc = s.split_at(8).unwrap().1;"),
    ("get_ref", "let acc = s.subslice(0, 8).unwrap().get_ref::<u32>(0).map(|r| r.to_slice()).unwrap();"),
    ("array_to_slice", "let acc = VolatileArrayRef::<u8, _>::from(s).to_slice();"),
];

const PARENTS: &[Parent] = &[
    Parent {
        name: "Vec<u8> -> VolatileSlice",
        mk: "let mut parent = vec![0u8; 64];",
        accessors: &[
            ("from(&mut buf)", "let acc = VolatileSlice::from(&mut parent[..]);"),
            ("from.subslice", "let acc = VolatileSlice::from(&mut parent[..]).subslice(0, 8).unwrap();"),
            ("from.offset", "let acc = VolatileSlice::from(&mut parent[..]).offset(4).unwrap();"),
            ("from.split_at", "let acc = VolatileSlice::from(&mut parent[..]).split_at(4).unwrap().0;"),
        ],
    },
    Parent {
        name: "VolatileSlice (borrowing derivations)",
        mk: "let mut buf = vec![0u8; 64]; let parent = VolatileSlice::from(&mut buf[..]);",
        accessors: &[
            ("get_slice", "let acc = parent.get_slice(0, 8).unwrap();"),
            ("as_volatile_slice", "let acc = parent.as_volatile_slice();"),
            ("get_ref", "let acc = parent.get_ref::<u32>(0).unwrap();"),
            ("get_array_ref", "let acc = parent.get_array_ref::<u16>(0, 4).unwrap();"),
            ("get_array_ref.ref_at", "let acc = parent.get_array_ref::<u16>(0, 4).unwrap().ref_at(1);"),
            ("get_array_ref.to_slice", "let acc = parent.get_array_ref::<u16>(0, 4).unwrap().to_slice();"),
            ("get_atomic_ref", "let acc = parent.get_atomic_ref::<AtomicU32>(0).unwrap();"),
            ("aligned_as_ref", "let acc = unsafe { parent.aligned_as_ref::<u32>(0).unwrap() };"),
            ("aligned_as_mut", "let acc = unsafe { parent.aligned_as_mut::<u32>(0).unwrap() };"),
            ("bitmap", "let acc = parent.bitmap();"),
        ],
    },
    Parent {
        name: "MmapRegion",
        mk: "let parent = MmapRegion::<()>::new(4096).unwrap();",
        accessors: &[
            ("get_slice", "let acc = parent.get_slice(0, 64).unwrap();"),
            ("as_volatile_slice", "let acc = parent.as_volatile_slice();"),
            ("get_slice.subslice", "let acc = parent.get_slice(0, 64).unwrap().subslice(0, 8).unwrap();"),
            ("get_slice.offset", "let acc = parent.get_slice(0, 64).unwrap().offset(8).unwrap();"),
            ("get_ref", "let acc = parent.get_ref::<u64>(8).unwrap();"),
            ("get_ref.to_slice", "let acc = parent.get_ref::<u64>(8).unwrap().to_slice();"),
            ("get_array_ref", "let acc = parent.get_array_ref::<u32>(0, 4).unwrap();"),
            ("get_array_ref.ref_at", "let acc = parent.get_array_ref::<u32>(0, 4).unwrap().ref_at(2);"),
            ("get_atomic_ref", "let acc = parent.get_atomic_ref::<AtomicU32>(0).unwrap();"),
            ("aligned_as_ref", "let acc = unsafe { parent.aligned_as_ref::<u64>(0).unwrap() };"),
            ("bitmap", "let acc = parent.bitmap();"),
            ("file_offset", "let acc = parent.file_offset();"),
        ],
    },
    Parent {
        name: "GuestRegionMmap",
        mk: "let parent = GuestRegionMmap::<()>::from_range(GuestAddress(0x1000), 4096, None).unwrap();",
        accessors: &[
            ("get_slice", "let acc = parent.get_slice(MemoryRegionAddress(0), 64).unwrap();"),
            ("as_volatile_slice", "let acc = GuestMemoryRegion::as_volatile_slice(&parent).unwrap();"),
            ("get_slice.split_at", "let acc = parent.get_slice(MemoryRegionAddress(0), 64).unwrap().split_at(8).unwrap().1;"),
            ("deref.get_ref", "let acc = parent.get_ref::<u32>(4).unwrap();"),
            ("deref.get_array_ref", "let acc = parent.get_array_ref::<u8>(0, 16).unwrap();"),
            ("deref.get_atomic_ref", "let acc = parent.get_atomic_ref::<AtomicU64>(0).unwrap();"),
            ("bitmap", "let acc = GuestMemoryRegion::bitmap(&parent);"),
            ("deref", "let acc: &MmapRegion<()> = &parent;"),
        ],
    },
    Parent {
        name: "GuestMemoryMmap",
        mk: "let parent = GuestMemoryMmap::<()>::from_ranges(&[(GuestAddress(0x1000), 4096), (GuestAddress(0x4000), 4096)]).unwrap();",
        accessors: &[
            ("get_slice", "let acc = parent.get_slice(GuestAddress(0x1000), 64).unwrap();"),
            ("get_slice.subslice", "let acc = parent.get_slice(GuestAddress(0x1000), 64).unwrap().subslice(8, 8).unwrap();"),
            ("get_slice.get_ref", "let acc = parent.get_slice(GuestAddress(0x4000), 64).unwrap().subslice(0, 8).unwrap();"),
            ("find_region", "let acc = parent.find_region(GuestAddress(0x1000)).unwrap();"),
            ("iter.next", "let acc = parent.iter().next().unwrap();"),
            ("to_region_addr", "let acc = parent.to_region_addr(GuestAddress(0x1010)).unwrap().0;"),
            ("find_region.get_slice", "let acc = parent.find_region(GuestAddress(0x4000)).unwrap().get_slice(MemoryRegionAddress(0), 8).unwrap();"),
            ("find_region.get_atomic_ref", "let acc = parent.find_region(GuestAddress(0x1000)).unwrap().get_atomic_ref::<AtomicU32>(0).unwrap();"),
            ("find_region.get_array_ref", "let acc = parent.find_region(GuestAddress(0x1000)).unwrap().get_array_ref::<u16>(0, 4).unwrap();"),
            ("find_region.bitmap", "let acc = parent.find_region(GuestAddress(0x1000)).unwrap().bitmap();"),
        ],
    },
    Parent {
        name: "GuestMemoryLoadGuard",
        mk: "let atomic = GuestMemoryAtomic::new(GuestMemoryMmap::<()>::from_ranges(&[(GuestAddress(0x1000), 4096)]).unwrap()); let parent = atomic.memory();",
        accessors: &[
            ("get_slice", "let acc = parent.get_slice(GuestAddress(0x1000), 64).unwrap();"),
            ("find_region", "let acc = parent.find_region(GuestAddress(0x1000)).unwrap();"),
            ("deref", "let acc: &GuestMemoryMmap<()> = &parent;"),
            ("find_region.get_atomic_ref", "let acc = parent.find_region(GuestAddress(0x1000)).unwrap().get_atomic_ref::<AtomicU32>(0).unwrap();"),
        ],
    },
    Parent {
        name: "Arc<GuestMemoryMmap> snapshot",
        mk: "let atomic = GuestMemoryAtomic::new(GuestMemoryMmap::<()>::from_ranges(&[(GuestAddress(0x1000), 4096)]).unwrap()); let parent = atomic.memory().into_inner();",
        accessors: &[
            ("get_slice", "let acc = parent.get_slice(GuestAddress(0x1000), 64).unwrap();"),
            ("find_region", "let acc = parent.find_region(GuestAddress(0x1000)).unwrap();"),
        ],
    },
    Parent {
        name: "MmapRegion -> slice value (non-borrowing derivations of a slice that borrows the region)",
        mk: "let parent = MmapRegion::<()>::new(4096).unwrap();",
        accessors: &[
            ("s", "let s = parent.get_slice(0, 64).unwrap(); let acc = s;"),
            ("s.subslice", "let s = parent.get_slice(0, 64).unwrap(); let acc = s.subslice(0, 8).unwrap();"),
            ("s.offset", "let s = parent.get_slice(0, 64).unwrap(); let acc = s.offset(8).unwrap();"),
            ("s.split_at", "let s = parent.get_slice(0, 64).unwrap(); let acc = s.split_at(8).unwrap().1;"),
            ("s.get_ref.to_slice", "let s = parent.get_slice(0, 64).unwrap(); let acc = s.get_ref::<u32>(0).unwrap().to_slice();"),
            ("s.array.from", "let s = parent.get_slice(0, 64).unwrap(); let acc = VolatileArrayRef::<u8, _>::from(s).to_slice();"),
            ("s.array.ref_at", "let s = parent.get_slice(0, 64).unwrap(); let acc = VolatileArrayRef::<u8, _>::from(s).ref_at(3);"),
        ],
    },
];

const PATTERNS: &[&str] = &["return_from_owning_block", "drop_parent_then_use", "move_parent_then_use"];

const PRELUDE: &str = r#"#![allow(unused, dropping_references, dropping_copy_types)]
use std::sync::atomic::{AtomicU32, AtomicU64};
use vm_memory::bitmap::Bitmap;
use vm_memory::{
    Address, Bytes, GuestAddress, GuestAddressSpace, GuestMemory, GuestMemoryAtomic, GuestMemoryMmap,
    GuestMemoryRegion, GuestRegionMmap, MemoryRegionAddress, MmapRegion, VolatileArrayRef,
    VolatileMemory, VolatileRef, VolatileSlice,
};
fn use_it<T>(t: &T) { let _ = std::mem::size_of_val(t); }
"#;

fn program(p: &Parent, acc: &str, pattern: usize, escape: bool) -> String {
    let body = match (pattern, escape) {
        (0, true) => format!("let acc = {{ {} {} acc }}; use_it(&acc);", p.mk, acc),
        (0, false) => format!("{{ {} {} use_it(&acc); }}", p.mk, acc),
        (1, true) => format!("{} {} drop(parent); use_it(&acc);", p.mk, acc),
        (1, false) => format!("{} {} use_it(&acc); drop(parent);", p.mk, acc),
        (_, true) => format!("{} {} let moved = parent; use_it(&acc); use_it(&moved);", p.mk, acc),
        (_, false) => format!("{} {} use_it(&acc); let moved = parent; use_it(&moved);", p.mk, acc),
    };
    format!("{}fn main() {{ {} }}\n", PRELUDE, body)
}

fn deps_dir() -> Result<std::path::PathBuf, String> {
    if let Ok(d) = std::env::var("VMV_DEPS") {
        return Ok(d.into());
    }
    let exe = std::env::current_exe().map_err(|e| e.to_string())?;
    Ok(exe.parent().ok_or("no parent")?.join("deps"))
}

fn newest_rlib(dir: &std::path::Path) -> Result<std::path::PathBuf, String> {
    let mut best: Option<(std::time::SystemTime, std::path::PathBuf)> = None;
    for e in std::fs::read_dir(dir).map_err(|e| format!("{}: {}", dir.display(), e))? {
        let e = e.map_err(|e| e.to_string())?;
        let n = e.file_name().to_string_lossy().to_string();
        if n.starts_with("libvm_memory-") && n.ends_with(".rlib") {
            let m = e.metadata().and_then(|m| m.modified()).map_err(|e| e.to_string())?;
            if best.as_ref().map(|b| m > b.0).unwrap_or(true) {
                best = Some((m, e.path()));
            }
        }
    }
    best.map(|b| b.1).ok_or_else(|| format!("no libvm_memory rlib in {}", dir.display()))
}

/// returns (compiled?, error codes, first lines of stderr)
fn compile(src: &str, tag: &str) -> Result<(bool, Vec<String>, String), String> {
    let deps = deps_dir()?;
    let rlib = newest_rlib(&deps)?;
    let base = std::env::var("VMV_SCRATCH").unwrap_or_else(|_| "/verif/out".to_string());
    let dir = std::path::Path::new(&base).join(format!("progs-{}", std::process::id()));
    std::fs::create_dir_all(&dir).map_err(|e| e.to_string())?;
    let path = dir.join(format!("{}.rs", tag));
    std::fs::write(&path, src).map_err(|e| e.to_string())?;
    let out = Command::new("rustc")
        .arg("--edition=2021")
        .arg("--crate-type=bin")
        .arg("--emit=metadata")
        .arg("--cap-lints=allow")
        .arg("-o")
        .arg(dir.join(format!("{}.rmeta", tag)))
        .arg("--extern")
        .arg(format!("vm_memory={}", rlib.display()))
        .arg("-L")
        .arg(format!("dependency={}", deps.display()))
        .arg(&path)
        .output()
        .map_err(|e| format!("cannot run rustc: {}", e))?;
    let stderr = String::from_utf8_lossy(&out.stderr).to_string();
    let mut codes = Vec::new();
    for l in stderr.lines() {
        if let Some(rest) = l.strip_prefix("error[") {
            if let Some(c) = rest.split(']').next() {
                codes.push(c.to_string());
            }
        } else if l.starts_with("error") && !l.starts_with("error: aborting") && !l.contains("previous error") {
            codes.push("other".to_string());
        }
    }
    let _ = std::fs::remove_file(&path);
    let _ = std::fs::remove_file(dir.join(format!("{}.rmeta", tag)));
    let short: String = stderr.lines().filter(|l| l.starts_with("error")).take(4).collect::<Vec<_>>().join(" | ");
    Ok((out.status.success(), codes, short))
}

const BORROW_ERRORS: &[&str] = &["E0597", "E0505", "E0515", "E0716", "E0499", "E0502", "E0506", "E0521", "E0503", "E0713", "E0712"];

fn run_pair(t: &mut Tape, cx: &mut Cx) -> Result<(), String> {
    let pi = t.idx(PARENTS.len());
    let p = &PARENTS[pi];
    let ai = t.idx(p.accessors.len());
    let (aname, acc) = p.accessors[ai];
    let mut pat = t.idx(PATTERNS.len());
    if p.name.starts_with("VolatileSlice") {
        pat = 0; // Copy parent: only leaving its scope ends the borrow
    }
    let what = format!("[{}] . [{}] / {}", p.name, aname, PATTERNS[pat]);
    note!(cx, "{}", what);
    cx.nt("program_pair");
    let tag = format!("p{}a{}t{}", pi, ai, pat);
    let control = program(p, acc, pat, false);
    let (ok, codes, short) = compile(&control, &format!("{}c", tag)).map_err(|e| format!("HARNESS-PANIC: {}", e))?;
    if !ok {
        // the control must compile; if it does not, the harness' program is wrong for this tree
        return Err(format!("HARNESS-PANIC: control program {} does not compile: {:?} {}", what, codes, short));
    }
    let escaping = program(p, acc, pat, true);
    let (ok, codes, short) = compile(&escaping, &format!("{}e", tag)).map_err(|e| format!("HARNESS-PANIC: {}", e))?;
    ensure!(!ok, "the escaping program compiles: the accessor {} outlives its parent ({})\n--- program ---\n{}", aname, what, escaping.lines().last().unwrap_or(""));
    ensure!(!codes.is_empty() && codes.iter().all(|c| BORROW_ERRORS.contains(&c.as_str())), "HARNESS-PANIC: escaping program {} is rejected for a non-borrow reason: {:?} {}", what, codes, short);
    Ok(())
}

/// Raw constructors and reference-returning functions hand out accessors with a lifetime chosen
/// by the caller; their `unsafe` marker is what keeps safe client programs from building an
/// accessor that outlives its memory. Each must be rejected (E0133) when called from safe code,
/// while the same call inside an `unsafe` block compiles.
const UNSAFE_CALLS: &[(&str, &str, &str)] = &[
    ("VolatileSlice::new", "let mut buf = vec![0u8; 64]; let p = buf.as_mut_ptr();", "VolatileSlice::new(p, 64)"),
    ("VolatileSlice::with_bitmap", "let mut buf = vec![0u8; 64]; let p = buf.as_mut_ptr();", "VolatileSlice::with_bitmap(p, 64, (), None)"),
    ("VolatileRef::new", "let mut buf = vec![0u8; 64]; let p = buf.as_mut_ptr();", "VolatileRef::<u32>::new(p)"),
    ("VolatileRef::with_bitmap", "let mut buf = vec![0u8; 64]; let p = buf.as_mut_ptr();", "VolatileRef::<u32, ()>::with_bitmap(p, (), None)"),
    ("VolatileArrayRef::new", "let mut buf = vec![0u8; 64]; let p = buf.as_mut_ptr();", "VolatileArrayRef::<u32>::new(p, 4)"),
    ("VolatileArrayRef::with_bitmap", "let mut buf = vec![0u8; 64]; let p = buf.as_mut_ptr();", "VolatileArrayRef::<u32, ()>::with_bitmap(p, 4, (), None)"),
    ("aligned_as_ref", "let parent = MmapRegion::<()>::new(4096).unwrap();", "parent.aligned_as_ref::<u64>(0).unwrap()"),
    ("aligned_as_mut", "let parent = MmapRegion::<()>::new(4096).unwrap();", "parent.aligned_as_mut::<u64>(0).unwrap()"),
    ("MmapRegion::build_raw", "let keep = MmapRegion::<()>::new(4096).unwrap(); let p = keep.as_ptr();", "MmapRegion::<()>::build_raw(p, 4096, 3, 0x22).unwrap()"),
    ("with_raw_mmap_pointer", "let keep = MmapRegion::<()>::new(4096).unwrap(); let p = keep.as_ptr();", "vm_memory::mmap::MmapRegionBuilder::<()>::new(4096).with_raw_mmap_pointer(p)"),
];

fn run_unsafe_required(t: &mut Tape, cx: &mut Cx) -> Result<(), String> {
    let (name, setup, call) = UNSAFE_CALLS[t.idx(UNSAFE_CALLS.len())];
    let what = format!("safe call of {}", name);
    note!(cx, "{}", what);
    cx.nt("unsafe_marker_required");
    let tag = format!("u{}", UNSAFE_CALLS.iter().position(|c| c.0 == name).unwrap());
    let control = format!("{}fn main() {{ {} let acc = unsafe {{ {} }}; use_it(&acc); }}\n", PRELUDE, setup, call);
    let (ok, codes, short) = compile(&control, &format!("{}c", tag)).map_err(|e| format!("HARNESS-PANIC: {}", e))?;
    if !ok {
        return Err(format!("HARNESS-PANIC: control program for {} does not compile: {:?} {}", name, codes, short));
    }
    let safe = format!("{}fn main() {{ {} let acc = {}; use_it(&acc); }}\n", PRELUDE, setup, call);
    let (ok, codes, short) = compile(&safe, &format!("{}e", tag)).map_err(|e| format!("HARNESS-PANIC: {}", e))?;
    ensure!(!ok, "{} can be called from safe code: a client can build an accessor with a lifetime of its own choosing without `unsafe`\n--- program ---\n{}", name, safe.lines().last().unwrap_or(""));
    ensure!(!codes.is_empty() && codes.iter().all(|c| c == "E0133"), "HARNESS-PANIC: safe call of {} is rejected for another reason: {:?} {}", name, codes, short);
    Ok(())
}

fn gen_unsafe(_t: Tier) -> Box<dyn Iterator<Item = Vec<u64>>> {
    Box::new((0..UNSAFE_CALLS.len() as u64).map(|i| vec![i]))
}

fn gen_pairs(_t: Tier) -> Box<dyn Iterator<Item = Vec<u64>>> {
    let mut v = Vec::new();
    for (pi, p) in PARENTS.iter().enumerate() {
        for ai in 0..p.accessors.len() {
            for pat in 0..PATTERNS.len() {
                // a VolatileSlice is Copy: dropping or moving it does not end the borrow, only
                // leaving its scope does
                if p.name.starts_with("VolatileSlice") && pat != 0 {
                    continue;
                }
                v.push(vec![pi as u64, ai as u64, pat as u64]);
            }
        }
    }
    Box::new(v.into_iter())
}

pub fn subchecks() -> Vec<SubCheck> {
    vec![
        SubCheck { name: "programs", builds: &[Build::Std], kind: Kind::Exhaustive { gen: gen_pairs }, run: run_pair },
        SubCheck { name: "unsafe_required", builds: &[Build::Std], kind: Kind::Exhaustive { gen: gen_unsafe }, run: run_unsafe_required },
    ]
}

#[allow(dead_code)]
fn _unused() {
    let _ = SLICE_ACCESSORS;
}
