//! Emulated Xen devices (gntdev / privcmd) for the xen build, plus the Xen halves of C15 and C17.
//! In the std build this module only provides empty sub-check lists.
//!
//! The "device" is a memfd: *grant reference r is file page r*. `MAP_GRANT_REF{count, refs[]}`
//! is answered with `index = refs[0].reference * 4096` and logged as a live window;
//! `UNMAP_GRANT_REF{index,count}` removes it; `MMAPBATCH_V2` succeeds. The library's following
//! `mmap(fd, offset = index)` is a real mapping of those file pages, so data written through an
//! on-demand window lands in the guest's page of the memfd and is observed with pread.

use crate::engine::SubCheck;

// In the std build the Xen sub-checks are listed (so that the driver knows they exist and builds
// the xen variant) but never run.
#[cfg(not(feature = "xen"))]
fn noop(_t: &mut crate::tape::Tape, _cx: &mut crate::engine::Cx) -> Result<(), String> {
    Ok(())
}
#[cfg(not(feature = "xen"))]
fn nogen(_t: crate::engine::Tier) -> Box<dyn Iterator<Item = Vec<u64>>> {
    Box::new(std::iter::empty())
}
#[cfg(not(feature = "xen"))]
pub fn c15_subchecks() -> Vec<SubCheck> {
    use crate::engine::{Build, Kind};
    vec![
        SubCheck { name: "xen_flag_words", builds: &[Build::Xen], kind: Kind::Exhaustive { gen: nogen }, run: noop },
        SubCheck { name: "xen_random", builds: &[Build::Xen], kind: Kind::Random { quick: 1, thorough: 1, max_words: 1 }, run: noop },
    ]
}
#[cfg(not(feature = "xen"))]
pub fn c17_subchecks() -> Vec<SubCheck> {
    use crate::engine::{Build, Kind};
    vec![
        SubCheck { name: "xen_history", builds: &[Build::Xen], kind: Kind::Random { quick: 1, thorough: 1, max_words: 1 }, run: noop },
        SubCheck { name: "xen_regress", builds: &[Build::Xen], kind: Kind::Exhaustive { gen: nogen }, run: noop },
    ]
}

#[cfg(feature = "xen")]
pub use imp::*;

#[cfg(feature = "xen")]
mod imp {
    use crate::common::{memfd, pread_all};
    use crate::engine::*;
    use crate::interpose::{self, Ev};
    use crate::p04_container::{history_raw, Raw};
    use crate::tape::Tape;
    use crate::{ensure, note};
    use std::fs::File;
    use std::os::raw::{c_int, c_ulong, c_void};
    use std::os::unix::fs::FileExt;
    use std::sync::Mutex;
    use vm_memory::bitmap::NewBitmap;
    use vm_memory::mmap::MmapRegionError;
    use vm_memory::{FileOffset, GuestAddress, GuestMemoryRegion, GuestRegionMmap, MmapRange, MmapRegion, MmapXenFlags, VolatileMemory};

    pub const PS: usize = 4096;
    const IOCTL_MAP: c_ulong = (24 << 16) | (0x47 << 8);
    const IOCTL_UNMAP: c_ulong = (16 << 16) | (0x47 << 8) | 1;
    const IOCTL_BATCH: c_ulong = (32 << 16) | (0x50 << 8) | 4;

    #[derive(Clone, Debug, PartialEq)]
    pub enum XEv {
        Map { index: u64, count: u32, ref0: u32, domid: u32, consecutive: bool },
        Unmap { index: u64, count: u32, matched: bool },
        Batch { num: u32, domid: u16 },
        Unknown(c_ulong),
    }

    static LOG: Mutex<Vec<XEv>> = Mutex::new(Vec::new());
    static LIVE: Mutex<Vec<(u64, u32)>> = Mutex::new(Vec::new());
    static FAIL_NEXT: Mutex<Option<c_ulong>> = Mutex::new(None);

    #[repr(C)]
    struct MapHdr {
        count: u32,
        pad: u32,
        index: u64,
    }
    #[repr(C)]
    struct Ref {
        domid: u32,
        reference: u32,
    }
    #[repr(C)]
    struct UnmapArg {
        index: u64,
        count: u32,
        pad: u32,
    }
    #[repr(C)]
    struct BatchArg {
        num: u32,
        domid: u16,
        addr: *mut c_void,
        arr: *const u64,
        err: *mut c_int,
    }

    unsafe fn emu_ioctl(_fd: c_int, req: c_ulong, arg: *mut c_void) -> c_int {
        if let Some(r) = FAIL_NEXT.lock().unwrap().take() {
            if r == req {
                *libc::__errno_location() = libc::EINVAL;
                return -1;
            }
        }
        match req {
            IOCTL_MAP => {
                let h = &mut *(arg as *mut MapHdr);
                let refs = std::slice::from_raw_parts((arg as *const u8).add(16) as *const Ref, h.count as usize);
                let ref0 = refs.first().map(|r| r.reference).unwrap_or(0);
                let consecutive = refs.iter().enumerate().all(|(i, r)| r.reference == ref0.wrapping_add(i as u32));
                h.index = ref0 as u64 * PS as u64;
                LOG.lock().unwrap().push(XEv::Map { index: h.index, count: h.count, ref0, domid: refs.first().map(|r| r.domid).unwrap_or(0), consecutive });
                LIVE.lock().unwrap().push((h.index, h.count));
                0
            }
            IOCTL_UNMAP => {
                let u = &*(arg as *const UnmapArg);
                let mut live = LIVE.lock().unwrap();
                let pos = live.iter().position(|w| w.0 == u.index && w.1 == u.count);
                if let Some(p) = pos {
                    live.remove(p);
                }
                LOG.lock().unwrap().push(XEv::Unmap { index: u.index, count: u.count, matched: pos.is_some() });
                0
            }
            IOCTL_BATCH => {
                let b = &*(arg as *const BatchArg);
                LOG.lock().unwrap().push(XEv::Batch { num: b.num, domid: b.domid });
                0
            }
            other => {
                LOG.lock().unwrap().push(XEv::Unknown(other));
                *libc::__errno_location() = libc::ENOTTY;
                -1
            }
        }
    }

    pub fn install() {
        vm_memory::verif_hooks::set_xen_ioctl_hook(Some(emu_ioctl));
    }
    pub fn take_log() -> Vec<XEv> {
        std::mem::take(&mut *LOG.lock().unwrap())
    }
    pub fn live() -> Vec<(u64, u32)> {
        LIVE.lock().unwrap().clone()
    }
    pub fn reset() {
        LOG.lock().unwrap().clear();
        LIVE.lock().unwrap().clear();
    }
    pub fn fail_next(req: &'static str) {
        *FAIL_NEXT.lock().unwrap() = Some(match req {
            "map" => IOCTL_MAP,
            "unmap" => IOCTL_UNMAP,
            _ => IOCTL_BATCH,
        });
    }

    #[derive(Clone, Copy, Debug, PartialEq)]
    pub enum Kind {
        UnixAnon,
        UnixFile,
        Foreign,
        GrantAdvance,
        GrantOnDemand,
    }

    pub struct XenRegion<B: vm_memory::bitmap::Bitmap> {
        pub region: GuestRegionMmap<B>,
        pub kind: Kind,
        pub size: usize,
        pub guest_base: u64,
        /// device / backing file (dup) and the file offset of region byte 0
        pub file: Option<(File, u64)>,
    }

    pub fn build<B: NewBitmap>(kind: Kind, guest_base: u64, size: usize) -> Result<XenRegion<B>, String> {
        install();
        let pages = size.div_ceil(PS);
        let base_ref = ((guest_base & !(1u64 << 63)) / PS as u64) as u32;
        let (range, file) = match kind {
            Kind::UnixAnon => (MmapRange::new_unix(size, None, GuestAddress(guest_base)), None),
            Kind::UnixFile => {
                let f = memfd((pages * PS) as u64);
                let d = f.try_clone().map_err(|e| e.to_string())?;
                (MmapRange::new_unix(size, Some(FileOffset::new(f, 0)), GuestAddress(guest_base)), Some((d, 0)))
            }
            Kind::Foreign => {
                let f = memfd((pages * PS) as u64);
                let d = f.try_clone().map_err(|e| e.to_string())?;
                (MmapRange::new(size, Some(FileOffset::new(f, 0)), GuestAddress(guest_base), MmapXenFlags::FOREIGN.bits(), 7), Some((d, 0)))
            }
            Kind::GrantAdvance | Kind::GrantOnDemand => {
                let f = memfd(((base_ref as usize + pages + 2) * PS) as u64);
                let d = f.try_clone().map_err(|e| e.to_string())?;
                let flags = if kind == Kind::GrantAdvance { MmapXenFlags::GRANT.bits() } else { MmapXenFlags::GRANT.bits() | MmapXenFlags::NO_ADVANCE_MAP.bits() };
                (MmapRange::new(size, Some(FileOffset::new(f, 0)), GuestAddress(guest_base), flags, 3), Some((d, base_ref as u64 * PS as u64)))
            }
        };
        let mr = MmapRegion::<B>::from_range(range).map_err(|e| format!("from_range({:?}): {:?}", kind, e))?;
        let region = GuestRegionMmap::new(mr, GuestAddress(guest_base)).map_err(|e| format!("{:?}", e))?;
        Ok(XenRegion { region, kind, size, guest_base, file })
    }

    impl<B: vm_memory::bitmap::Bitmap> XenRegion<B> {
        pub fn raw_read(&self) -> Vec<u8> {
            match &self.file {
                Some((f, off)) => pread_all(f, *off, self.size),
                None => {
                    let p = self.region.as_ptr();
                    // SAFETY: anonymous unix mapping of `size` bytes.
                    (0..self.size).map(|i| unsafe { p.add(i).read_volatile() }).collect()
                }
            }
        }
        pub fn raw_write(&self, data: &[u8]) {
            match &self.file {
                Some((f, off)) => f.write_all_at(data, *off).expect("pwrite"),
                None => {
                    let p = self.region.as_ptr();
                    for (i, b) in data.iter().enumerate() {
                        // SAFETY: inside the mapping.
                        unsafe { p.add(i).write_volatile(*b) };
                    }
                }
            }
        }
    }

    struct XRaw<'a, B: vm_memory::bitmap::Bitmap>(&'a XenRegion<B>);
    impl<B: vm_memory::bitmap::Bitmap> Raw for XRaw<'_, B> {
        fn read_all(&self) -> Vec<u8> {
            self.0.raw_read()
        }
        fn write_all(&self, data: &[u8]) {
            self.0.raw_write(data)
        }
        fn host(&self) -> Option<*mut u8> {
            if self.0.kind == Kind::GrantOnDemand { None } else { Some(self.0.region.as_ptr()) }
        }
        fn align_base(&self) -> usize {
            self.0.region.as_ptr() as usize
        }
    }

    /// Guest memory over emulated regions with a raw view of every region (pread/pwrite on the
    /// device file or the host pointer), usable as a `Subject` of the flat-memory checks.
    pub struct XenMem {
        pub mem: vm_memory::GuestMemoryMmap<()>,
        views: Vec<(Option<(File, u64)>, usize)>,
    }

    impl XenMem {
        pub fn build(layout: &crate::common::Layout, kinds: &[Kind]) -> Result<Self, String> {
            let mut regs = Vec::new();
            let mut views = Vec::new();
            for (i, &(s, l)) in layout.regs.iter().enumerate() {
                let xr: XenRegion<()> = build(kinds[i], s, l as usize)?;
                let host = if kinds[i] == Kind::GrantOnDemand { 0 } else { xr.region.as_ptr() as usize };
                views.push((xr.file.as_ref().map(|(f, o)| (f.try_clone().unwrap(), *o)), host));
                regs.push(std::sync::Arc::new(xr.region));
            }
            let mem = vm_memory::GuestMemoryMmap::from_arc_regions(regs).map_err(|e| format!("{:?}", e))?;
            Ok(XenMem { mem, views })
        }
    }

    impl vm_memory::GuestMemory for XenMem {
        type R = GuestRegionMmap<()>;
        fn num_regions(&self) -> usize {
            self.mem.num_regions()
        }
        fn find_region(&self, addr: GuestAddress) -> Option<&Self::R> {
            self.mem.find_region(addr)
        }
        fn iter(&self) -> impl Iterator<Item = &Self::R> {
            self.mem.iter()
        }
    }

    impl crate::common::Subject for XenMem {
        fn host(&self, region: usize) -> *mut u8 {
            self.views[region].1 as *mut u8
        }
        fn slack(&self, _region: usize) -> usize {
            0
        }
        fn kind(&self) -> &'static str {
            "xen"
        }
        fn raw_read(&self, region: usize, len: usize) -> Vec<u8> {
            match &self.views[region].0 {
                Some((f, off)) => pread_all(f, *off, len),
                None => {
                    let p = self.views[region].1 as *const u8;
                    // SAFETY: unix mapping of the region.
                    (0..len).map(|o| unsafe { p.add(o).read_volatile() }).collect()
                }
            }
        }
        fn raw_write(&self, region: usize, off: usize, data: &[u8]) {
            match &self.views[region].0 {
                Some((f, foff)) => f.write_all_at(data, foff + off as u64).expect("pwrite"),
                None => {
                    let p = self.views[region].1 as *mut u8;
                    for (i, b) in data.iter().enumerate() {
                        // SAFETY: unix mapping of the region.
                        unsafe { p.add(off + i).write_volatile(*b) };
                    }
                }
            }
        }
    }

    pub fn gen_kind(t: &mut Tape) -> Kind {
        t.pick(&[Kind::GrantOnDemand, Kind::GrantOnDemand, Kind::GrantAdvance, Kind::Foreign, Kind::UnixAnon, Kind::UnixFile])
    }

    /// C17 (xen): access histories (the C04 operation set) over emulated regions.
    pub fn run_c17_history(t: &mut Tape, cx: &mut Cx) -> Result<(), String> {
        let kind = gen_kind(t);
        let size = match t.below(5) {
            0 => PS,
            1 => 2 * PS + 1 + t.idx(60),
            2 => 1 + t.idx(200),
            3 => 3 * PS - t.idx(40),
            _ => PS + 1 + t.idx(PS),
        };
        let guest_base = PS as u64 * (1 + t.below(6)) | if kind == Kind::GrantOnDemand && t.flag() { 1u64 << 63 } else { 0 };
        reset();
        interpose::begin();
        let xr = build::<()>(kind, guest_base, size)?;
        let build_log = take_log();
        note!(cx, "{:?} region base {:#x} size {:#x}", kind, guest_base, size);
        match kind {
            Kind::GrantOnDemand => {
                cx.nt("on_demand_region");
                ensure!(build_log.is_empty() && live().is_empty(), "an on-demand region mapped something at creation: {:?}", build_log);
            }
            Kind::GrantAdvance => {
                cx.label("advance_mapped_grant");
                ensure!(matches!(build_log.as_slice(), [XEv::Map { count, consecutive: true, .. }] if *count as usize == size.div_ceil(PS)), "advance-mapped grant region issued {:?}", build_log);
            }
            Kind::Foreign => {
                cx.label("foreign_region");
                ensure!(matches!(build_log.as_slice(), [XEv::Batch { num, domid: 7 }] if *num as usize == size.div_ceil(PS)), "foreign region issued {:?}", build_log);
            }
            _ => {
                cx.label("unix_region");
            }
        }
        let windows_before = live();
        let after_step = || -> Result<(), String> {
            let log = take_log();
            let lv = live();
            ensure!(lv == windows_before, "after the operation {} temporary window(s) are still mapped: {:x?} (device log {:x?})", lv.len().saturating_sub(windows_before.len()), lv, log);
            for e in &log {
                match e {
                    XEv::Unmap { matched: false, index, count } => return Err(format!("unmap ioctl for a window that is not live / with a different size: index {:#x} count {} (log {:x?})", index, count, log)),
                    XEv::Map { consecutive: false, .. } => return Err(format!("grant references of a window are not consecutive: {:x?}", e)),
                    XEv::Unknown(r) => return Err(format!("unknown ioctl {:#x}", r)),
                    _ => {}
                }
            }
            if kind != Kind::GrantOnDemand {
                ensure!(log.is_empty(), "a region mapped in advance used the device during an access: {:x?}", log);
            } else if log.iter().any(|e| matches!(e, XEv::Map { count, .. } if *count >= 2)) {
                // a window spanning several pages
            }
            Ok(())
        };
        let r = crate::p04_container::history_alt(&*xr.region, Some(&xr.region), &XRaw(&xr), size, &after_step, t, cx);
        if kind == Kind::GrantOnDemand && size > PS {
            cx.nt("on_demand_multi_page");
        }
        r?;
        // dropping the region releases everything, device side after the munmap
        drop(xr);
        let _ = interpose::end();
        let log = take_log();
        ensure!(live().is_empty(), "after dropping the region windows remain: {:x?} (log {:x?})", live(), log);
        Ok(())
    }

    /// Hand-written regression cases for the repaired on-demand-mapping defects.
    fn run_c17_regress(t: &mut Tape, cx: &mut Cx) -> Result<(), String> {
        use vm_memory::Bytes;
        reset();
        let xr = build::<()>(Kind::GrantOnDemand, 0x3000, 3 * PS)?;
        let init: Vec<u8> = (0..3 * PS).map(|i| (i % 251) as u8).collect();
        xr.raw_write(&init);
        let r = &*xr.region;
        let vs = r.as_volatile_slice();
        cx.nt("regression_on_demand");
        match t.below(4) {
            0 => {
                // F4a: atomic store/load dereferenced the unmapped stored address
                note!(cx, "regression F4a: atomic store/load on an on-demand region");
                vs.store(0xA1B2_C3D4u32, PS + 8, std::sync::atomic::Ordering::SeqCst).map_err(|e| format!("{:?}", e))?;
                let v: u32 = vs.load(PS + 8, std::sync::atomic::Ordering::SeqCst).map_err(|e| format!("{:?}", e))?;
                ensure!(v == 0xA1B2_C3D4, "load after store = {:#x}", v);
                ensure!(xr.raw_read()[PS + 8..PS + 12] == 0xA1B2_C3D4u32.to_ne_bytes(), "atomic store did not reach the guest page");
                ensure!(vs.store(1u32, PS + 2, std::sync::atomic::Ordering::SeqCst).is_err(), "misaligned atomic store accepted");
            }
            1 => {
                // F4b: copy_to_volatile_slice copied between unmapped addresses; overlapping ranges
                note!(cx, "regression F4b: overlapping copy_to_volatile_slice on an on-demand region");
                let src = vs.subslice(690, 2585).map_err(|e| format!("{:?}", e))?;
                let dst = vs.subslice(1214, 1273).map_err(|e| format!("{:?}", e))?;
                src.copy_to_volatile_slice(dst);
                let mut want = init.clone();
                want.copy_within(690..690 + 1273, 1214);
                ensure!(xr.raw_read() == want, "overlapping copy (destination above source) on an on-demand region does not have memmove semantics");
                let src = vs.subslice(5000, 3000).map_err(|e| format!("{:?}", e))?;
                let dst = vs.subslice(4100, 3000).map_err(|e| format!("{:?}", e))?;
                src.copy_to_volatile_slice(dst);
                want.copy_within(5000..8000, 4100);
                ensure!(xr.raw_read() == want, "overlapping copy (destination below source) on an on-demand region does not have memmove semantics");
            }
            2 => {
                // F3 (xen consequence): the window for an element array was too small
                note!(cx, "regression F3: copy_from of 1024 u64 into an on-demand region");
                let data: Vec<u64> = (0..1024u64).map(|i| i.wrapping_mul(0x0101_0101_0101_0101)).collect();
                let ar = vs.get_array_ref::<u64>(8, 1024).map_err(|e| format!("{:?}", e))?;
                ar.copy_from(&data);
                let mut back = vec![0u64; 1024];
                ensure!(ar.copy_to(&mut back) == 1024 && back == data, "u64 array round trip through an on-demand region failed");
            }
            _ => {
                // F5 + alignment(0): empty accesses at a page-aligned offset / offset 0
                note!(cx, "regression F5: empty accesses on an on-demand region");
                let mut src: &[u8] = &[];
                ensure!(matches!(vs.read_volatile_from(PS, &mut src, 0), Ok(0)), "zero-count stream transfer at a page-aligned offset");
                let empty = vs.subslice(0, 0).map_err(|e| format!("{:?}", e))?;
                let mut b = [0u8; 7];
                ensure!(empty.copy_to(&mut b[..]) == 0, "copy_to from an empty slice at offset 0");
                empty.copy_from(&b[..]);
                let mut v: Vec<u8> = Vec::new();
                ensure!(matches!(vs.write_volatile_to(2 * PS, &mut v, 0), Ok(0)), "zero-count write_volatile_to at a page-aligned offset");
                ensure!(xr.raw_read() == init, "empty accesses modified memory");
            }
        }
        ensure!(live().is_empty(), "temporary windows remain: {:x?}", live());
        Ok(())
    }

    fn gen_c17_regress(_t: Tier) -> Box<dyn Iterator<Item = Vec<u64>>> {
        Box::new((0..4u64).map(|i| vec![i]))
    }

    pub fn c17_subchecks() -> Vec<SubCheck> {
        vec![
            SubCheck { name: "xen_history", builds: &[Build::Xen], kind: crate::engine::Kind::Random { quick: 6_000, thorough: 250_000, max_words: 200 }, run: run_c17_history },
            SubCheck { name: "xen_regress", builds: &[Build::Xen], kind: crate::engine::Kind::Exhaustive { gen: gen_c17_regress }, run: run_c17_regress },
        ]
    }

    fn ename(e: &MmapRegionError) -> &'static str {
        match e {
            MmapRegionError::InvalidOffsetLength => "InvalidOffsetLength",
            MmapRegionError::MapFixed => "MapFixed",
            MmapRegionError::MappingPastEof => "MappingPastEof",
            MmapRegionError::Mmap(_) => "Mmap",
            MmapRegionError::SeekEnd(_) => "SeekEnd",
            MmapRegionError::SeekStart(_) => "SeekStart",
            MmapRegionError::InvalidFileOffset => "InvalidFileOffset",
            MmapRegionError::MappedInAdvance => "MappedInAdvance",
            MmapRegionError::MmapFlags(_) => "MmapFlags",
            MmapRegionError::Fam(_) => "Fam",
            MmapRegionError::UnexpectedError => "UnexpectedError",
        }
    }

    /// C15 (xen): MmapRange::new with every flag word, file present/absent, offset 0 / non-zero.
    fn run_c15_xen(t: &mut Tape, cx: &mut Cx) -> Result<(), String> {
        install();
        let word = match t.below(20) {
            w @ 0..=15 => w as u32,
            16 => 0x10,
            17 => 0x20,
            18 => 0x8000_0000,
            _ => t.word() as u32,
        };
        let with_file = t.below(2) == 1;
        let off_sel = t.below(7);
        let map_fixed = t.below(4) == 3;
        let explicit = t.below(2) == 1;
        let size = t.pick(&[PS, 1, PS + 1, 3 * PS]);
        let flen = (size.div_ceil(PS) * PS + 8 * PS) as u64;
        let offset = match off_sel {
            0 => 0,
            1 => PS as u64,
            2 => 0x800,
            3 => PS as u64 + 1,
            4 => flen - size as u64,
            5 => flen - size as u64 + 1,
            _ => 2 * PS as u64,
        };
        let off_nonzero = offset != 0;
        let guest_base = PS as u64 * (1 + t.below(4));
        let file = if with_file { Some(memfd(flen)) } else { None };
        let dup = file.as_ref().map(|f| f.try_clone().expect("dup"));
        if let Some(d) = &dup {
            // position-dependent file contents
            let fill: Vec<u8> = (0..flen as usize).map(|i| ((i as u32).wrapping_mul(2654435761) >> 11) as u8).collect();
            d.write_all_at(&fill, 0).expect("pwrite");
        }
        let fo = file.map(|f| FileOffset::new(f, offset));
        let mut range = MmapRange::new(size, fo, GuestAddress(guest_base), word, 11);
        // explicit flag words with and without MAP_SHARED (the foreign / grant paths add what they
        // need themselves; the region reports what was asked)
        let flags_base = t.pick(&[libc::MAP_SHARED, libc::MAP_SHARED, libc::MAP_SHARED | libc::MAP_NORESERVE, libc::MAP_PRIVATE, libc::MAP_NORESERVE, 0]);
        let flags_val = flags_base | if map_fixed { libc::MAP_FIXED } else { 0 };
        if explicit || map_fixed {
            range.set_flags(flags_val);
            range.set_prot(libc::PROT_READ | libc::PROT_WRITE);
        }
        // ---- decision table
        let known = word & !0xB == 0; // defined bits: 0x1 foreign, 0x2 grant, 0x8 no-advance
        let foreign = word & 1 != 0;
        let grant = word & 2 != 0;
        let noadv = word & 8 != 0;
        let unix = word == 0;
        let mut must_fail: Vec<&'static str> = Vec::new();
        if map_fixed {
            must_fail.push("MapFixed");
        }
        let flags_ok = known && ((grant && !foreign) || ((foreign || unix) && !grant && !noadv));
        if !flags_ok {
            must_fail.push("MmapFlags");
        } else if foreign || grant {
            if !with_file {
                must_fail.push("InvalidFileOffset");
            } else if off_nonzero {
                must_fail.push("InvalidOffsetLength");
            }
        } else if with_file && offset + size as u64 > flen {
            must_fail.push("MappingPastEof");
        }
        note!(cx, "MmapRange::new(size {:#x}, file {}, offset {:#x}, xen flags {:#x}) fixed={} => must_fail {:?}", size, with_file, offset, word, map_fixed, must_fail);
        cx.nt("xen_flag_word");
        if word > 0xF {
            cx.nt("unknown_flag_bits");
        }
        reset();
        interpose::begin();
        let r = MmapRegion::<()>::from_range(range);
        let log = interpose::take();
        match r {
            Err(e) if must_fail.is_empty() && ((unix && (!with_file || offset % PS as u64 != 0)) || (explicit && flags_val & (libc::MAP_SHARED | libc::MAP_PRIVATE) == 0)) && ename(&e) == "Mmap" => {
                // a UNIX-type range without a file and with the default (shared, non-anonymous)
                // flags, or with a file offset that is not a multiple of the page size, or any
                // request whose explicit flag word names neither MAP_SHARED nor MAP_PRIVATE, is
                // refused by the OS itself
                let _ = interpose::end();
                cx.label("refused_by_os");
                ensure!(interpose::live_after(&log).is_empty(), "refused construction left mappings behind");
            }
            Err(e) => {
                let _ = interpose::end();
                ensure!(!must_fail.is_empty(), "a consistent Xen request (flags {:#x}, file {}, offset {:#x}) was refused with {} ({:?})", word, with_file, offset, ename(&e), e);
                ensure!(must_fail.contains(&ename(&e)), "request must fail with one of {:?} but failed with {} ({:?})", must_fail, ename(&e), e);
                let left = interpose::live_after(&log);
                ensure!(left.is_empty() && live().is_empty(), "refused construction left mappings {:x?} / windows {:x?} behind", left, live());
            }
            Ok(region) => {
                ensure!(must_fail.is_empty(), "request that must fail with {:?} produced a region (flags {:#x}, file {}, offset {:#x})", must_fail, word, with_file, offset);
                ensure!(region.size() == size && region.len() == size, "region.size() = {:#x}, asked {:#x}", region.size(), size);
                ensure!(region.xen_mmap_flags() == word && region.xen_mmap_data() == 11, "xen_mmap_flags/data = {:#x}/{}, asked {:#x}/11", region.xen_mmap_flags(), region.xen_mmap_data(), word);
                ensure!(region.prot() == libc::PROT_READ | libc::PROT_WRITE, "prot() = {:#x}", region.prot());
                let want_flags = if explicit { flags_val } else { libc::MAP_NORESERVE | libc::MAP_SHARED };
                ensure!(region.flags() == want_flags, "flags() = {:#x}, asked {:#x}", region.flags(), want_flags);
                ensure!(region.file_offset().map(|f| f.start()) == if with_file { Some(offset) } else { None }, "file_offset() mismatch");
                if let (true, Some(d)) = (unix && region.flags() & libc::MAP_SHARED != 0, &dup) {
                    // shared file-backed region: byte i of the region is byte offset+i of the file
                    use vm_memory::{Bytes, VolatileMemory};
                    cx.nt("xen_unix_file_contents");
                    let vs = region.get_slice(0, size).map_err(|e| format!("get_slice(0, size): {:?}", e))?;
                    let n = size.min(2 * PS);
                    let mut seen = vec![0u8; n];
                    vs.read_slice(&mut seen, 0).map_err(|e| format!("{:?}", e))?;
                    let want = pread_all(d, offset, n);
                    ensure!(seen == want, "region created at file offset {:#x}: its bytes are not the file bytes at {:#x}.. (first difference at region byte {})", offset, offset, seen.iter().zip(&want).position(|(a, b)| a != b).unwrap_or(0));
                    let before = pread_all(d, 0, flen as usize);
                    let pat: Vec<u8> = (0..n).map(|i| (i as u8).wrapping_mul(7) ^ 0xA5).collect();
                    vs.write_slice(&pat, 0).map_err(|e| format!("{:?}", e))?;
                    let after = pread_all(d, 0, flen as usize);
                    for i in 0..flen as usize {
                        let w = if (i as u64) >= offset && (i as u64) < offset + n as u64 { pat[i - offset as usize] } else { before[i] };
                        ensure!(after[i] == w, "after writing the region (file offset {:#x}, {:#x} bytes) file byte {:#x} is {:#04x}, expected {:#04x}", offset, n, i, after[i], w);
                    }
                }
                drop(region);
                let l2 = interpose::end();
                let all: Vec<Ev> = log.iter().cloned().chain(l2.into_iter()).collect();
                ensure!(interpose::live_after(&all).is_empty() && live().is_empty(), "after dropping the region mappings {:x?} / windows {:x?} remain", interpose::live_after(&all), live());
                cx.label("built");
            }
        }
        Ok(())
    }

    fn gen_c15_words(_t: Tier) -> Box<dyn Iterator<Item = Vec<u64>>> {
        // every low flag word (and three with unknown bits) x file x offset x MAP_FIXED x explicit
        Box::new((0..19u64).flat_map(|w| {
            (0..2u64).flat_map(move |f| (0..7u64).flat_map(move |o| (0..4u64).flat_map(move |fx| (0..2u64).flat_map(move |ex| (0..4u64).flat_map(move |sz| (0..if ex == 1 { 6u64 } else { 1 }).map(move |fl| vec![w, f, o, fx, ex, sz, 0, fl]))))))
        }))
    }

    pub fn c15_subchecks() -> Vec<SubCheck> {
        vec![
            SubCheck { name: "xen_flag_words", builds: &[Build::Xen], kind: crate::engine::Kind::Exhaustive { gen: gen_c15_words }, run: run_c15_xen },
            SubCheck { name: "xen_random", builds: &[Build::Xen], kind: crate::engine::Kind::Random { quick: 3_000, thorough: 100_000, max_words: 12 }, run: run_c15_xen },
        ]
    }
}
