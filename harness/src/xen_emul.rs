//! Emulated Xen devices (gntdev / privcmd) for the xen build, plus the Xen halves of C15, C17, C18
//! and C12. In the std build this module only provides empty sub-check lists.

use crate::engine::SubCheck;

#[cfg(not(feature = "xen"))]
pub fn c15_subchecks() -> Vec<SubCheck> {
    Vec::new()
}

#[cfg(feature = "xen")]
pub fn c15_subchecks() -> Vec<SubCheck> {
    Vec::new()
}
