fn main() { println!("hello"); }
