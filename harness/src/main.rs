use serde_json::json;
use std::io::Write;
use vmv::engine::*;

// --- interposed C symbols (see vmv::interpose) -------------------------------------------------

#[no_mangle]
pub unsafe extern "C" fn mmap(addr: *mut libc::c_void, len: libc::size_t, prot: libc::c_int, flags: libc::c_int, fd: libc::c_int, off: libc::off_t) -> *mut libc::c_void {
    let r = libc::syscall(libc::SYS_mmap, addr, len, prot, flags, fd, off);
    vmv::interpose::report(vmv::interpose::Ev::Mmap { ret: r as usize, len, prot, flags, fd, off });
    r as *mut libc::c_void
}

#[no_mangle]
pub unsafe extern "C" fn munmap(addr: *mut libc::c_void, len: libc::size_t) -> libc::c_int {
    let r = libc::syscall(libc::SYS_munmap, addr, len) as libc::c_int;
    vmv::interpose::report(vmv::interpose::Ev::Munmap { addr: addr as usize, len, ret: r });
    r
}

fn usage() -> ! {
    eprintln!("usage: vmv list | run --prop ID --tier quick|thorough [--seed N] [--shard i/n] [--out F] [--keys F] [--tapefile F] [--known a,b] [--only SUB] [--scale X] [--replay-dir D] | replay FILE [--known a,b] | replay-tapefile FILE --prop ID | merge-keys F...");
    std::process::exit(2)
}

fn arg_val(args: &[String], name: &str) -> Option<String> {
    args.iter().position(|a| a == name).and_then(|i| args.get(i + 1).cloned())
}

fn main() {
    let args: Vec<String> = std::env::args().collect();
    if args.len() < 2 {
        usage();
    }
    install_panic_hook();
    vmv::interpose::mark_installed();
    let props = vmv::properties();
    let known: Vec<String> = arg_val(&args, "--known")
        .map(|s| s.split(',').filter(|x| !x.is_empty()).map(|x| x.to_string()).collect())
        .unwrap_or_default();
    match args[1].as_str() {
        "list" => {
            let v: Vec<_> = props
                .iter()
                .map(|p| {
                    json!({"id": p.id, "rule": p.rule, "assumptions": p.assumptions,
                      "subchecks": p.subchecks.iter().map(|s| json!({
                        "name": s.name,
                        "builds": s.builds.iter().map(|b| b.name()).collect::<Vec<_>>(),
                        "exhaustive": matches!(s.kind, Kind::Exhaustive{..}),
                      })).collect::<Vec<_>>()})
                })
                .collect();
            println!("{}", serde_json::to_string_pretty(&v).unwrap());
        }
        "run" => {
            let id = arg_val(&args, "--prop").unwrap_or_else(|| usage());
            let prop = props.iter().find(|p| p.id == id).unwrap_or_else(|| {
                eprintln!("unknown property {}", id);
                std::process::exit(2)
            });
            let tier = match arg_val(&args, "--tier").as_deref() {
                Some("thorough") => Tier::Thorough,
                _ => Tier::Quick,
            };
            let seed = arg_val(&args, "--seed").and_then(|s| s.parse().ok()).unwrap_or(0u64);
            let (shard, nshards) = arg_val(&args, "--shard")
                .map(|s| {
                    let mut it = s.split('/');
                    (it.next().unwrap().parse().unwrap(), it.next().unwrap().parse().unwrap())
                })
                .unwrap_or((0u32, 1u32));
            let opts = RunOpts {
                tier,
                seed,
                shard,
                nshards,
                known,
                only: arg_val(&args, "--only"),
                tapefile: arg_val(&args, "--tapefile").and_then(|p| TapeFile::open(&p)),
                replay_dir: arg_val(&args, "--replay-dir").unwrap_or_else(|| "/verif/replays".into()),
                scale: arg_val(&args, "--scale").and_then(|s| s.parse().ok()).unwrap_or(1.0),
            };
            let t0 = std::time::Instant::now();
            let (mut out, failures, keys) = run_property(prop, &opts);
            out["wall_s"] = json!(t0.elapsed().as_secs_f64());
            if let Some(kf) = arg_val(&args, "--keys") {
                let mut f = std::fs::File::create(kf).unwrap();
                let mut buf = Vec::with_capacity(keys.len() * 8);
                for k in &keys {
                    buf.extend_from_slice(&k.to_le_bytes());
                }
                f.write_all(&buf).unwrap();
            }
            let s = serde_json::to_string_pretty(&out).unwrap();
            if let Some(of) = arg_val(&args, "--out") {
                std::fs::write(of, &s).unwrap();
            } else {
                println!("{}", s);
            }
            for f in &failures {
                println!("FAILURE property={} subcheck={} replay={}", prop.id, f.subcheck, f.replay_path);
                for l in f.message.lines().take(12) {
                    println!("  {}", l);
                }
            }
            std::process::exit(if failures.is_empty() { 0 } else { 1 });
        }
        "replay" => {
            let path = args.get(2).cloned().unwrap_or_else(|| usage());
            let rf = match read_replay(&path) {
                Ok(r) => r,
                Err(e) => {
                    eprintln!("{}", e);
                    std::process::exit(2)
                }
            };
            if rf.build != current_build().name() && !args.iter().any(|a| a == "--any-build") {
                eprintln!("replay file is for build '{}', this binary is '{}'", rf.build, current_build().name());
                std::process::exit(3);
            }
            let prop = props.iter().find(|p| p.id == rf.prop).unwrap_or_else(|| {
                eprintln!("unknown property {}", rf.prop);
                std::process::exit(2)
            });
            let sc = prop.subchecks.iter().find(|s| s.name == rf.sub).unwrap_or_else(|| {
                eprintln!("unknown subcheck {}", rf.sub);
                std::process::exit(2)
            });
            let tf = arg_val(&args, "--tapefile").and_then(|p| TapeFile::open(&p));
            if let Some(tf) = &tf {
                tf.record(0, rf.raw, &rf.words);
            }
            let (r, cx, _) = exec_once(sc.run, &rf.words, rf.raw, true, &known, Tier::Quick);
            for l in cx.desc.split("; ") {
                if !l.is_empty() {
                    println!("case: {}", l);
                }
            }
            match r {
                Ok(()) => {
                    println!("PASS property={} subcheck={}", rf.prop, rf.sub);
                }
                Err(m) => {
                    println!("{}", m);
                    println!("VIOLATION property={} replay={}", rf.prop, path);
                    std::process::exit(1);
                }
            }
        }
        "dump-tapefile" => {
            // print the tape recorded in a tapefile as a replay file on stdout
            let path = args.get(2).cloned().unwrap_or_else(|| usage());
            let id = arg_val(&args, "--prop").unwrap_or_else(|| usage());
            let prop = props.iter().find(|p| p.id == id).unwrap();
            let data = std::fs::read(&path).unwrap();
            let w = |i: usize| u64::from_le_bytes(data[i * 8..i * 8 + 8].try_into().unwrap());
            if data.len() < 32 || w(0) != 0x7a9e_7a9e {
                eprintln!("no tape recorded");
                std::process::exit(4);
            }
            let sub = w(1) as usize;
            let raw = w(2) != 0;
            let n = w(3) as usize;
            println!("property {}", id);
            println!("subcheck {}", prop.subchecks[sub].name);
            println!("build {}", current_build().name());
            println!("mode {}", if raw { "raw" } else { "random" });
            println!("words {}", n);
            for i in 0..n {
                println!("{:#018x}", w(4 + i));
            }
        }
        "dump-corpus" => {
            // write N pseudo-random tapes as binary corpus files for the libFuzzer tier
            let dir = args.get(2).cloned().unwrap_or_else(|| usage());
            let n: u64 = arg_val(&args, "--n").and_then(|s| s.parse().ok()).unwrap_or(64);
            let words: usize = arg_val(&args, "--words").and_then(|s| s.parse().ok()).unwrap_or(64);
            let seed: u64 = arg_val(&args, "--seed").and_then(|s| s.parse().ok()).unwrap_or(0);
            std::fs::create_dir_all(&dir).unwrap();
            let mut st = seed ^ 0x5eed_c0de;
            for i in 0..n {
                let len = 1 + (vmv::tape::splitmix(&mut st) as usize % words);
                let mut buf = Vec::with_capacity(len * 8);
                for _ in 0..len {
                    buf.extend_from_slice(&vmv::tape::splitmix(&mut st).to_le_bytes());
                }
                std::fs::write(format!("{}/seed-{:04}", dir, i), &buf).unwrap();
            }
            std::fs::write(format!("{}/empty", dir), b"").unwrap();
        }
        "tape-from-bytes" => {
            // convert a libFuzzer artifact into a replay file on stdout
            let path = args.get(2).cloned().unwrap_or_else(|| usage());
            let id = arg_val(&args, "--prop").unwrap_or_else(|| usage());
            let sub = arg_val(&args, "--sub").unwrap_or_else(|| usage());
            let data = std::fs::read(&path).unwrap();
            println!("property {}\nsubcheck {}\nbuild std\nmode random\nwords {}", id, sub, data.len().div_ceil(8));
            for c in data.chunks(8) {
                let mut b = [0u8; 8];
                b[..c.len()].copy_from_slice(c);
                println!("{:#018x}", u64::from_le_bytes(b));
            }
        }
        "merge-keys" => {
            let mut all: Vec<u64> = Vec::new();
            for f in &args[2..] {
                if let Ok(d) = std::fs::read(f) {
                    for c in d.chunks_exact(8) {
                        all.push(u64::from_le_bytes(c.try_into().unwrap()));
                    }
                }
            }
            all.sort_unstable();
            all.dedup();
            println!("{}", all.len());
        }
        _ => usage(),
    }
}
