//! C17 – pointer guards span their accessor; on-demand mappings cover every access.
//! std part: guard length / pointer against the accessor's extent. xen part (xen_emul.rs):
//! access histories over emulated Unix / foreign / advance-mapped / on-demand grant regions.

use crate::common::*;
use crate::engine::*;
use crate::p04_container::{Pod, NPOD};
use crate::tape::Tape;
use crate::{ensure, note, with_pod};
use vm_memory::{Be64, Le32, VolatileMemory, VolatileSlice};

trait Dummy {}
impl Dummy for () {}

fn guards<T: Pod, X: Dummy>(s: &VolatileSlice<'_, ()>, base: usize, t: &mut Tape, cx: &mut Cx, _x: X) -> Result<(), String> {
    let len = s.len();
    let sz = T::N;
    // slice
    let g = s.ptr_guard();
    ensure!(g.len() == len && g.as_ptr() as usize == base, "VolatileSlice::ptr_guard(): len {} ptr {:p}, the slice covers {} bytes at {:#x}", g.len(), g.as_ptr(), len, base);
    let gm = s.ptr_guard_mut();
    ensure!(gm.len() == len && gm.as_ptr() as usize == base, "VolatileSlice::ptr_guard_mut(): len {} ptr {:p}, the slice covers {} bytes at {:#x}", gm.len(), gm.as_ptr(), len, base);
    // typed reference
    if len >= sz {
        let o = t.idx(len - sz + 1);
        let r = s.get_ref::<T>(o).map_err(|e| format!("{:?}", e))?;
        let g = r.ptr_guard();
        ensure!(g.len() == sz && g.as_ptr() as usize == base + o, "VolatileRef::<{}>::ptr_guard(): len {} ptr {:p}, the reference covers {} bytes at {:#x}", T::NAME, g.len(), g.as_ptr(), sz, base + o);
        let gm = r.ptr_guard_mut();
        ensure!(gm.len() == sz && gm.as_ptr() as usize == base + o, "VolatileRef::<{}>::ptr_guard_mut(): len {}, covers {}", T::NAME, gm.len(), sz);
        note!(cx, "ref::<{}>({})", T::NAME, o);
    }
    // element array
    let o = t.idx(len + 1);
    let maxn = (len - o) / sz;
    let n = match t.below(4) {
        0 => maxn,
        1 => 0,
        _ => t.idx(maxn + 1),
    };
    let a = s.get_array_ref::<T>(o, n).map_err(|e| format!("{:?}", e))?;
    let g = a.ptr_guard();
    note!(cx, "array::<{}>({}, {})", T::NAME, o, n);
    if sz > 1 && n > 0 {
        cx.nt("array_of_wide_elements");
    }
    if n == 0 {
        cx.nt("empty_array");
    }
    ensure!(g.len() == n * sz, "VolatileArrayRef::<{}>::ptr_guard().len() = {}, but {} elements of {} bytes cover {} bytes", T::NAME, g.len(), n, sz, n * sz);
    ensure!(g.as_ptr() as usize == base + o, "VolatileArrayRef::ptr_guard() points at {:p}, the array starts at {:#x}", g.as_ptr(), base + o);
    let gm = a.ptr_guard_mut();
    ensure!(gm.len() == n * sz && gm.as_ptr() as usize == base + o, "VolatileArrayRef::<{}>::ptr_guard_mut().len() = {}, the array covers {} bytes", T::NAME, gm.len(), n * sz);
    if n > 0 {
        let i = t.idx(n);
        let r = a.ref_at(i);
        let g = r.ptr_guard();
        ensure!(g.len() == sz && g.as_ptr() as usize == base + o + i * sz, "ref_at({}).ptr_guard(): len {} ptr {:p}", i, g.len(), g.as_ptr());
    }
    let ts = a.to_slice();
    ensure!(ts.ptr_guard().len() == n * sz, "array.to_slice().ptr_guard().len() = {}", ts.ptr_guard().len());
    Ok(())
}

fn run_std(t: &mut Tape, cx: &mut Cx) -> Result<(), String> {
    let len = t.idx(200);
    let fr = Framed::new(len, t.idx(16));
    let root = fr.slice();
    let o = t.idx(len + 1);
    let c = t.idx(len - o + 1);
    let s = root.subslice(o, c).map_err(|e| format!("{:?}", e))?;
    note!(cx, "slice[{}..+{}] of {}", o, c, len);
    let sel = t.idx(NPOD);
    cx.nt("guard_checked");
    with_pod!(sel, guards, &s, fr.ptr() as usize + o, t, cx, ())
}

#[cfg(not(feature = "xen"))]
fn run_region(t: &mut Tape, cx: &mut Cx) -> Result<(), String> {
    use vm_memory::MmapRegion;
    let size = 1 + t.idx(3 * 4096);
    let r = MmapRegion::<()>::new(size).map_err(|e| format!("{:?}", e))?;
    let o = t.idx(size + 1);
    let c = t.idx(size - o + 1);
    let s = r.get_slice(o, c).map_err(|e| format!("{:?}", e))?;
    note!(cx, "region({}).get_slice({}, {})", size, o, c);
    cx.nt("guard_checked");
    let sel = t.idx(NPOD);
    with_pod!(sel, guards, &s, r.as_ptr() as usize + o, t, cx, ())
}

#[cfg(feature = "xen")]
fn run_region(_t: &mut Tape, _cx: &mut Cx) -> Result<(), String> {
    Ok(())
}

/// Hand-written regression cases (bypass the generators).
fn run_regress(_t: &mut Tape, cx: &mut Cx) -> Result<(), String> {
    // F3: VolatileArrayRef::ptr_guard passed the element count as the guard length
    let mut buf = vec![0u8; 128];
    let s = VolatileSlice::from(&mut buf[..]);
    let a = s.get_array_ref::<u64>(0, 8).map_err(|e| format!("{:?}", e))?;
    note!(cx, "regression F3: get_array_ref::<u64>(0, 8).ptr_guard().len()");
    cx.nt("regression_F3");
    ensure!(a.ptr_guard().len() == 64 && a.ptr_guard_mut().len() == 64, "get_array_ref::<u64>(0, 8).ptr_guard().len() = {} / mut {}, want 64", a.ptr_guard().len(), a.ptr_guard_mut().len());
    let a = s.get_array_ref::<[u8; 3]>(1, 5).map_err(|e| format!("{:?}", e))?;
    ensure!(a.ptr_guard().len() == 15, "get_array_ref::<[u8;3]>(1, 5).ptr_guard().len() = {}, want 15", a.ptr_guard().len());
    Ok(())
}

fn gen_regress(_t: Tier) -> Box<dyn Iterator<Item = Vec<u64>>> {
    Box::new((0..2u64).map(|i| vec![i]))
}

pub fn property() -> Property {
    let mut subchecks = vec![
        SubCheck { name: "regress", builds: &[Build::Std], kind: Kind::Exhaustive { gen: gen_regress }, run: run_regress },
        SubCheck { name: "guards", builds: &[Build::Std], kind: Kind::Random { quick: 40_000, thorough: 2_000_000, max_words: 24 }, run: run_std },
        SubCheck { name: "region_guards", builds: &[Build::Std], kind: Kind::Random { quick: 8_000, thorough: 300_000, max_words: 24 }, run: run_region },
    ];
    subchecks.extend(crate::xen_emul::c17_subchecks());
    Property {
        id: "C17",
        rule: "std build: a case = an accessor (VolatileSlice, VolatileRef<T>, VolatileArrayRef<T> for 11 element types of 1..16 bytes, element counts 0..max) obtained at generated offsets from a framed buffer or an MmapRegion; oracle: ptr_guard()/ptr_guard_mut() report the number of bytes the accessor covers and point at its first byte. xen build: a case = one emulated region (Unix anonymous/file, foreign, advance-mapped grant, on-demand grant; sizes 1 byte..3 pages +- odd; guest base with and without the grant address bit) + a history of 1..30 accesses of every accessor kind (the C04 operation set: buffers, objects, typed refs, element arrays of every width, slice-to-slice copies, atomics) at offsets inside pages and across page boundaries; oracle: data observed with pread on the emulated device equals the byte model after every step, no temporary window is live after an operation, unmap requests match live windows, regions mapped in advance never use the device during an access, nothing remains after the region is dropped; a window that is too small or missing faults and is attributed to the case by the driver; non-trivial = array of elements wider than a byte, empty array, on-demand region, on-demand region larger than a page; distinct = decoded case",
        assumptions: &["Xen devices are emulated through hook H3: grant reference r is page r of a memfd", "get_atomic_ref / aligned_as_ref / aligned_as_mut hand out plain references; what the caller does with them on a region that is not mapped is outside 'accesses the library performs' and is not generated on on-demand regions"],
        subchecks,
    }
}

#[allow(dead_code)]
fn _unused(_: Le32, _: Be64) {}
