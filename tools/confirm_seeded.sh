#!/bin/bash
# usage: tools/confirm_seeded.sh <dir with patch.diff demo.rs meta.json>
# Confirms in a scratch worktree: patch applies, default suite still 81 passed, demo fails with the
# patch and passes without it. Prints one summary line; exit 0 if all confirmed.
set -u
d=$1
wt=/tmp/wt/confirm
export CARGO_NET_OFFLINE=true CARGO_TARGET_DIR=/tmp/wt/confirm-target
if [ ! -d $wt ]; then git -C /repo worktree add --detach $wt HEAD -q || exit 9; fi
cd $wt && git checkout -q --detach $(git -C /repo rev-parse HEAD) 2>/dev/null; git checkout -q -- . ; rm -rf tests
feat=backend-mmap,backend-atomic,backend-bitmap
grep -q '"demo_cmd".*xen' $d/meta.json 2>/dev/null && feat=xen,backend-atomic,backend-bitmap
git apply --check $d/patch.diff || { echo "CONFIRM $d: patch does not apply"; exit 1; }
git apply $d/patch.diff
base=$(cargo test --workspace --no-fail-fast --offline 2>&1 | grep -E "^test result" | head -1)
b1=$(cargo build --offline --features backend-mmap,backend-atomic,backend-bitmap 2>&1 | grep -cE "^error")
b2=$(cargo build --offline --features xen,backend-atomic,backend-bitmap 2>&1 | grep -cE "^error")
mkdir -p tests && cp $d/demo.rs tests/demo.rs
with=$(cargo test --offline --features $feat --test demo 2>&1 | grep -E "^test result|^error" | head -1)
git checkout -q -- src
without=$(cargo test --offline --features $feat --test demo 2>&1 | grep -E "^test result|error(\[|:)" | head -1)
rm -rf tests
echo "CONFIRM $d"
echo "  baseline-with-patch: $base"
echo "  feature builds errors: $b1 $b2"
echo "  demo with patch:    $with"
echo "  demo without patch: $without"
ok=1
echo "$base" | grep -q "81 passed; 0 failed" || ok=0
[ "$b1" = 0 ] && [ "$b2" = 0 ] || ok=0
echo "$with" | grep -qE "FAILED|error" || ok=0
echo "$without" | grep -q "test result: ok" || ok=0
echo "  confirmed=$ok"
[ $ok = 1 ]
