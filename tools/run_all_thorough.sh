#!/bin/bash
# usage: tools/run_all_thorough.sh [ids...]  - runs the thorough tier of every claimed check sequentially, logs timing
cd "$(dirname "$0")/.."
ids="$@"
[ -z "$ids" ] && ids=$(python3 -c "import json; print(' '.join(c['property_id'] for c in json.load(open('MANIFEST.json'))['checks']))")
mkdir -p out
for p in $ids; do
  t0=$(date +%s)
  ./check $p thorough > out/thorough-$p.log 2>&1; rc=$?
  t1=$(date +%s)
  echo "THOROUGH $p rc=$rc wall=$((t1-t0))s :: $(grep -E "^$p thorough" out/thorough-$p.log | tail -1)"
done
