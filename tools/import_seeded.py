#!/usr/bin/env python3
"""usage: tools/import_seeded.py <name> <caught_by: comma list or 'none'> [note]
copies /tmp/seeded/<name>/{patch.diff,demo.rs,meta.json} to /verif/seeded/<name>/ and records what was run."""
import json, os, shutil, sys
name, caught = sys.argv[1], sys.argv[2]
note = sys.argv[3] if len(sys.argv) > 3 else ""
src = "/tmp/seeded/" + name
dst = "/verif/seeded/" + name
os.makedirs(dst, exist_ok=True)
for f in ("patch.diff", "demo.rs", "patch.rebased.diff", "check.sh"):
    if not os.path.exists(os.path.join(src, f)):
        continue
    shutil.copy(os.path.join(src, f), os.path.join(dst, f))
try:
    meta = json.load(open(os.path.join(src, "meta.json")))
except Exception as e:
    meta = {"raw_meta_error": str(e)}
out = {
    "breaks_property": meta.get("property", name.split("-")[0]),
    "summary": meta.get("summary"),
    "needs_to_manifest": meta.get("needs"),
    "files": meta.get("files"),
    "demo_cmd": meta.get("demo_cmd"),
    "author": "independent sub-agent given only the property text and a scratch worktree",
    "author_verified": meta.get("verified"),
    "confirmed_by_me": "tools/confirm_seeded.sh (round 3: tools/confirm_seeded_xen.sh, xen feature set; form-2 demos are appended to src/mmap/xen.rs and run with --lib) in scratch worktree /tmp/wt/confirm: patch applies; cargo test --workspace --no-fail-fast --offline = 81 passed; feature builds (backend-mmap,... and xen,...) compile; demo fails with the patch and passes without it",
    "ran": "tools/run_seeded.sh %s <checks> (git -C /repo apply patch.diff; ./check <id> quick; git -C /repo checkout -- .)" % name,
    "caught_by": [] if caught == "none" else caught.split(","),
    "note": note,
}
json.dump(out, open(os.path.join(dst, "meta.json"), "w"), indent=1)
print("imported", name, "caught_by", out["caught_by"])
