#!/bin/bash
# usage: tools/seed_sweep.sh seed... : runs every claimed quick check with each seed; reports non-zero exits
cd "$(dirname "$0")/.."
rm -rf out/evidence.bak; cp -r evidence out/evidence.bak
ids=$(python3 -c "import json; print(' '.join(c['property_id'] for c in json.load(open('MANIFEST.json'))['checks']))")
for s in "$@"; do
  for p in $ids; do
    out=$(VERIF_SEED=$s ./check $p quick 2>&1); rc=$?
    if [ $rc -ne 0 ]; then echo "SWEEP seed=$s $p rc=$rc"; echo "$out" | tail -6; fi
  done
  echo "SWEEP seed=$s done"
done
rm -rf evidence; mv out/evidence.bak evidence
