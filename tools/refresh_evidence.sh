#!/bin/bash
# Re-run every claimed check (quick) on the current tree so that the committed evidence files come
# from clean runs. usage: tools/refresh_evidence.sh [ids...]
cd "$(dirname "$0")/.."
ids="$@"
[ -z "$ids" ] && ids=$(python3 -c "import json; print(' '.join(c['property_id'] for c in json.load(open('MANIFEST.json'))['checks']))")
rc=0
for p in $ids; do ./check $p quick | tail -1 || rc=1; done
python3-vt - <<'PY'
import json, jsonschema, glob
s = json.load(open('/root/.vp/EVIDENCE.schema.json'))
for f in sorted(glob.glob('/verif/evidence/*.json')):
    try:
        jsonschema.validate(json.load(open(f)), s)
    except Exception as e:
        print("INVALID", f, str(e)[:200])
print("evidence validated")
PY
exit $rc
