#!/usr/bin/env python3
"""Regenerates /verif/MANIFEST.json from the table below (keeps it schema-valid at all times)."""
import json, subprocess

CLAIMED = {
 "C01": ("generated derivation chains (proptest tapes) vs containment/alignment oracle; guard pages + worker isolation for out-of-parent reads",
         "every accessor obtained through up to 8 chained derivations with boundary/overflowing arguments is checked for: not-fit => error, extent inside the parent, alignment of typed/atomic references, and no byte outside the accessor changing when it is used; exploration, no proof of absence",
         "u128 arithmetic oracle; PROT_NONE guard pages catch out-of-parent reads only when they leave the page frame; ASan variant in the fuzz tier", "4 C01"),
 "C02": ("model-based PBT: interval-set model over u128, exhaustive address sweep of small universes",
         "all address/range/offset queries of GuestMemoryMmap (built directly or through insert/remove chains) and of a default-method-only GuestMemory are compared with an interval-set model; small universes are swept address by address",
         "interval-set model; empty-range queries at unmapped bases are don't-care", "4 C02"),
 "C03": ("model-based stateful PBT: flat sparse byte-array model, whole-memory comparison through host pointers/backing files after every step",
         "histories of every guest-level access form (buffers, slices, objects, streams incl. short/chunked sources and sinks, atomics) over generated layouts (anonymous, file-backed, Xen-UNIX, mock) agree with a flat byte array after every step",
         "flat model indexed 0..2^64; raw observation through host pointers and pread", "4 C03"),
 "C04": ("model-based stateful PBT: Vec<u8> model of one container (slice; mapped region addressed as a slice and through the region's own interface; xen build: emulated regions judged through the device file), raw comparison after every step",
         "histories over every accessor kind of one container (slice or mapped region) transfer exactly the named bytes, report the right counts and leave the frame untouched",
         "Vec<u8> model; values encoded with to_ne/le/be_bytes", "4 C04"),
 "C05": ("stateful PBT with a diff-driven oracle: every byte that changed must be dirty in the owning bitmap",
         "for generated levels, page sizes, bitmap flavours, derivation chains and histories with resets, no write leaves a changed byte clean; failing descriptor reads report their whole target",
         "byte diff through raw pointers is independent of what the library claims to have written", "4 C05"),
 "C06": ("exhaustive enumeration of (entry point x length x guest/local alignment) against a trace oracle of the primitive accesses (hook H1); atomic-API enumeration (std build and, over emulated regions of every kind, the xen build); threaded tearing detector and store-buffering litmus test (requested ordering) with fixed iteration counts",
         "for every entry point that funnels into the byte-copy helper and every length 0..=24 and address alignment class, an aligned 1/2/4/8-byte transfer is requested as exactly one access of that width; misaligned atomic accesses are refused at every container alignment; a black-box flip/observe run cross-checks; SeqCst store-then-load pairs never both miss the other thread's store",
         "hook observes requested accesses; one aligned volatile access <= 8 bytes assumed to be one machine access; tearing detector and litmus test do not own the schedule (a forbidden outcome is always real, silence is weak evidence); the litmus test can only expose a weakened SeqCst store on x86", "4 C06"),
 "C07": ("extreme-input PBT over every public access/query entry point, in builds with and without overflow checks and in the xen build; panics caught per case, crashes/hangs attributed by worker isolation and watchdog",
         "no generated call with addresses/lengths/counts from the full 64-bit range panics, aborts, overflows in checked builds or hangs",
         "documented program-logic panics excluded by construction (listed in evidence assumptions); hang = no result within the watchdog, reproduced from the recorded tape", "4 C07"),
 "C08": ("schedule-as-input PBT: every atomic operation of the bitmap is a yield point (hook H2); a controller picks which thread advances from the tape; all interleavings of small scopes enumerated depth-first",
         "for generated concurrent programs and generated (or exhaustively enumerated) sequentially consistent schedules at atomic-operation granularity, no mark is lost and no unmarked page is ever reported",
         "only SC interleavings of the instrumented atomic operations; weak-memory reorderings out of reach", "4 C08"),
 "C09": ("model-based stateful PBT: BTreeSet model compared over the whole index range after every step",
         "histories of all public bitmap operations incl. enlarge, clone and nested slices behave like a set of page numbers",
         "BTreeSet model; wrapping slice offsets are don't-care by documentation", "4 C09"),
 "C10": ("model-based stateful PBT over a growing list of maps; every earlier map re-inspected after every step",
         "construction, insertion and removal fail with the documented error or return a sorted disjoint map equal to the old set +- one region; earlier maps, clones and removed-region handles keep reaching the same tagged memory",
         "sorted-list model; base+size == 2^64 is a don't-care", "4 C10"),
 "C11": ("model-based stateful PBT over several handles (generation model, Weak liveness) + generated multi-threaded reader/updater programs with a schedule-independent oracle + exhaustively enumerated update-lock histories (give up, dying updater, second updater on another thread)",
         "sequential histories over up to 4 handles show that a snapshot keeps exactly its generation while replacements (incl. same-layout ones) happen, every handle sees the newest map after replace returns, and old generations die exactly when unreachable; threaded stress never observes a mixture, a step backwards, or a lost update",
         "interleavings inside arc-swap/Mutex are sampled by stress only (no hook into external crates)", "4 C11"),
 "C12": ("stateful PBT against an owner-count model judged by an interposed mmap/munmap log; metamorphic compile-fail program pairs generated from a grammar and compiled against the current crate",
         "for generated create/build/insert/remove/clone/snapshot/replace/drop histories every mapping is unmapped exactly once when its last owner goes (never for raw regions), no leak at the end; every (parent, accessor, escape pattern) program is rejected by the borrow checker while its control twin compiles",
         "interposed C symbols mmap/munmap in the harness binary; client programs limited to the grammar", "4 C12"),
 "C13": ("differential PBT: identical call sequences on the volatile adapter and on its std::io counterpart (xen build: the volatile buffer inside emulated regions incl. mapped on demand)",
         "for every adapter the crate provides, counts, bytes landed, stream positions/sink contents and error kinds agree with std after every call of a generated sequence; canaries show the buffer bounds are respected",
         "std::io adapters as reference; state after a failed exact call not compared (unspecified by std)", "4 C13"),
 "C14": ("fault-script PBT: generated per-call behaviours of a harness stream, and the crate's own stream objects / real descriptors with early end-of-stream and full sinks (std and xen builds), judged by conservation invariants over the stream log / stream state and memory",
         "under generated scripts of full/short/zero/interrupted/hard-error behaviours, interruptions are retried, errors end and are reported, every delivered byte is stored once in order, exact forms succeed iff the full count moved",
         "harness-implemented stream with position-determined content; kernel EINTR not injected", "4 C14"),
 "C15": ("decision-table PBT over construction requests + exhaustive enumeration of Xen flag words; interposed mmap/munmap log; pread/pwrite coherence",
         "construction fails with the documented error exactly for unsafe/inconsistent requests (several conditions: any of their errors), leaves nothing mapped on failure, and otherwise reports exactly what was asked; shared file-backed regions are coherent with the file in both directions; every Xen mapping-type flag word is enumerated over emulated devices",
         "requests the OS may refuse accept Ok or Err(Mmap); base+size == 2^64 is a don't-care; Xen devices emulated through hook H3", "4 C15"),
 "C16": ("stateful PBT with a full bitmap snapshot before/after every operation",
         "newly dirty pages are confined to the pages overlapping what the operation wrote; read-type and rejected operations mark nothing; only the failing descriptor read may mark its whole target",
         "written ranges computed from documented transfer semantics (themselves checked by C03/C04)", "4 C16"),
 "C17": ("PBT of guard extent vs accessor extent (std) + model-based stateful PBT over emulated Xen regions (hook H3) with the device log as oracle",
         "pointer guards of slices, typed refs and element arrays report the bytes covered and the first byte; on emulated on-demand grant regions every accessor kind works inside temporary windows (a missing/too small window faults and is attributed), data equals the model, no window is live after an operation",
         "Xen devices emulated: grant reference r = page r of a memfd; worker isolation turns faults into violations", "4 C17"),
 "C18": ("exhaustive enumeration of (zero-length entry point x layer x address class x container), in three builds incl. emulated Xen regions",
         "every zero-length form of the byte-access interface returns Ok(0)/Ok(()) at every layer and address class the statement covers, never panics, changes no byte, marks nothing dirty and leaves no Xen window mapped; zero-sized element copies do the same",
         "stream forms and zero-sized copies are only required to succeed at addresses valid for a non-empty access", "4 C18"),
 "C19": ("exhaustive boundary cross product + random pairs against 128-bit integer arithmetic",
         "every checked/overflowing/align/mask/compare operation agrees with exact i128 arithmetic on the full cross product of a 206-value boundary set, all 64 alignments, and random operands",
         "i128 oracle", "4 C19"),
 "C20": ("exhaustive enumeration (16-bit; 32-bit in thorough) + structured and random values against to_le/be_bytes",
         "round trip, byte order in memory, equality truth table, size/alignment for all eight wrappers; all 2^16 values always, all 2^32 values in the thorough tier",
         "std integer byte-order conversions as oracle", "4 C20"),
}

props = [json.loads(l) for l in open('/verif/properties.jsonl')]
hooks = subprocess.run(["git", "-C", "/repo", "log", "--format=%H %s"], stdout=subprocess.PIPE, text=True).stdout.splitlines()
hook_commits = [l.split()[0] for l in hooks if "verif hook" in l]
checks = []
na = []
for p in props:
    pid = p["id"]
    if pid in CLAIMED:
        tech, text, note, ref = CLAIMED[pid]
        checks.append({
            "property_id": pid,
            "quick_cmd": "./check %s quick" % pid,
            "thorough_cmd": "./check %s thorough" % pid,
            "evidence_file": "/verif/evidence/%s.json" % pid,
            "replay_cmd_template": "./check --replay {path}",
            "engine": "vmv",
            "level_claimed": {"category": "exploration", "text": text, "design_ref": "DESIGN.md section " + ref},
            "level_note": note,
            "technique": "property-based testing: " + tech,
        })
    else:
        na.append({"property_id": pid, "reason": "check not built yet (work in progress; DESIGN.md section 4 has the plan for this property)"})
m = {
 "version": 1,
 "setup_cmd": "./check --build",
 "hooks": {
  "guard": "--cfg vm_memory_verif",
  "enable": "RUSTFLAGS '--cfg vm_memory_verif' set in /verif/harness/.cargo/config.toml (and /verif/fuzz); the harness depends on vm-memory by path=/repo so every check rebuilds the working tree",
  "baseline_off_cmd": "cd /repo && cargo test --workspace --no-fail-fast --offline",
  "source_commits": hook_commits,
  "add_only": True,
 },
 "engines": [{"name": "vmv", "path": "/verif/harness", "serves_properties": sorted(CLAIMED), "kind_free_text": "Rust harness: choice-tape decoders per property driven by proptest (TestRunner, fixed seeds, shrinking) and exhaustive enumerators; python driver ./check builds, shards, isolates crashes, merges evidence"}],
 "checks": checks,
 "not_applicable": na,
 "notes": "exit 0 = held, 1 = VIOLATION line(s), 2 = inconclusive/infrastructure. Known findings: /verif/known_findings.json.",
}
json.dump(m, open('/verif/MANIFEST.json', 'w'), indent=1)
print("claimed", len(checks), "n/a", len(na))
