#!/bin/bash
# usage: tools/run_seeded.sh <dir with patch.diff> <PROP> [PROP...]
# applies the seeded change to /repo, runs the quick checks, reverts /repo.
set -u
d=$1; shift
git -C /repo apply $d/patch.diff || { echo "patch does not apply"; exit 9; }
cd /verif
rm -rf /verif/out/evidence.bak; cp -r /verif/evidence /verif/out/evidence.bak
for p in "$@"; do
  out=$(./check $p ${TIER:-quick} 2>&1); rc=$?
  echo "$out" | grep -v "^built" | cut -c1-260 | head -${LINES_MAX:-5}
  echo "SEEDED $(basename $d) check=$p rc=$rc"
done
git -C /repo checkout -- .
rm -rf /verif/evidence; mv /verif/out/evidence.bak /verif/evidence
rm -f /verif/replays/*.tape
