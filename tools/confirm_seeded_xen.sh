#!/bin/bash
# usage: tools/confirm_seeded_xen.sh <dir> <1|2> [lib-test-filter]
# Xen-build variant of confirm_seeded.sh. Form 1: demo.rs is tests/demo.rs. Form 2: demo.rs is a
# #[cfg(test)] module appended to src/mmap/xen.rs and run with --lib <filter>.
set -u
d=$1; form=$2; filt=${3:-demo}
wt=/tmp/wt/confirm
export CARGO_NET_OFFLINE=true CARGO_TARGET_DIR=/tmp/wt/confirm-target
if [ ! -d $wt ]; then git -C /repo worktree add --detach $wt HEAD -q || exit 9; fi
cd $wt && git checkout -q --detach $(git -C /repo rev-parse HEAD) 2>/dev/null; git checkout -q -- . ; rm -rf tests
feat=xen,backend-atomic,backend-bitmap
rundemo() {
  if [ $form = 1 ]; then mkdir -p tests; cp $d/demo.rs tests/demo.rs
    cargo test --offline --features $feat --test demo 2>&1 | grep -E "^test result|^error" | head -1
    rm -rf tests
  else cp src/mmap/xen.rs /tmp/wt/xen.rs.keep; cat $d/demo.rs >> src/mmap/xen.rs
    cargo test --offline --features $feat --lib $filt 2>&1 | grep -E "^test result|^error|signal" | head -1
    cp /tmp/wt/xen.rs.keep src/mmap/xen.rs; rm -f /tmp/wt/xen.rs.keep
  fi
}
git apply --check $d/patch.diff || { echo "CONFIRM $d: patch does not apply"; exit 1; }
git apply $d/patch.diff
base=$(cargo test --workspace --no-fail-fast --offline 2>&1 | grep -E "^test result" | head -1)
b1=$(cargo build --offline --features backend-mmap,backend-atomic,backend-bitmap 2>&1 | grep -cE "^error")
b2=$(cargo build --offline --features $feat 2>&1 | grep -cE "^error")
with=$(rundemo)
git checkout -q -- src
without=$(rundemo)
echo "CONFIRM $d"
echo "  baseline-with-patch: $base"
echo "  feature builds errors: $b1 $b2"
echo "  demo with patch:    $with"
echo "  demo without patch: $without"
ok=1
echo "$base" | grep -q "81 passed; 0 failed" || ok=0
[ "$b1" = 0 ] && [ "$b2" = 0 ] || ok=0
echo "$with" | grep -qE "FAILED|error|signal" || ok=0
echo "$without" | grep -qE "test result: ok. [1-9]" || ok=0
echo "  confirmed=$ok"
[ $ok = 1 ]
