#!/bin/bash
# Re-runs every imported seeded change against the current tree with the check(s) recorded in its
# meta.json; prints one line per seed. usage: tools/recheck_seeds.sh [--scratch] [names...]
# Default: applies each change to /repo and restores it (tools/run_seeded.sh). --scratch: applies
# it to a scratch worktree and runs a scratch copy of /verif (tools/run_seeded_scratch.sh), leaving
# /repo untouched.
cd "$(dirname "$0")/.."
runner=tools/run_seeded.sh; tree=/repo
if [ "${1:-}" = "--scratch" ]; then runner=tools/run_seeded_scratch.sh; shift; fi
names="$@"; [ -z "$names" ] && names=$(ls -d seeded/*/ | xargs -n1 basename)
for n in $names; do
  d=$PWD/seeded/$n
  checks=$(python3 -c "import json;print(' '.join(json.load(open('$d/meta.json'))['caught_by']))")
  rebased=""
  if ! git -C $tree apply --check $d/patch.diff 2>/dev/null; then
    if [ -f $d/patch.rebased.diff ] && git -C $tree apply --check $d/patch.rebased.diff 2>/dev/null; then
      mkdir -p out/rebased-$n; cp $d/patch.rebased.diff out/rebased-$n/patch.diff; d=$PWD/out/rebased-$n; rebased=" (rebased patch)"
    else echo "RECHECK $n: patch no longer applies to the current tree"; continue; fi
  fi
  res=""
  for c in $checks; do
    out=$($runner $d $c 2>&1 | grep "^SEEDED" | sed 's/.*rc=//')
    res="$res $c:rc=$out"
  done
  [ -z "$checks" ] && res=" (not detected by design, see meta.json)"
  echo "RECHECK $n$rebased:$res"
done
