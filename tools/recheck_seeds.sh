#!/bin/bash
# Re-runs every imported seeded change against the current /repo tree with the check(s) recorded
# in its meta.json; prints one line per seed. /repo is restored after each.
cd /verif
for d in /verif/seeded/*/; do
  n=$(basename $d)
  checks=$(python3 -c "import json;print(' '.join(json.load(open('/verif/seeded/$n/meta.json'))['caught_by']))")
  if ! git -C /repo apply --check $d/patch.diff 2>/dev/null; then
    if [ -f $d/patch.rebased.diff ] && git -C /repo apply --check $d/patch.rebased.diff 2>/dev/null; then
      mkdir -p /verif/out/rebased-$n; cp $d/patch.rebased.diff /verif/out/rebased-$n/patch.diff; d=/verif/out/rebased-$n/; rebased=" (rebased patch)"
    else echo "RECHECK $n: patch no longer applies to the current tree"; continue; fi
  else rebased=""; fi
  res=""
  for c in $checks; do
    out=$(tools/run_seeded.sh $d $c 2>&1 | grep "^SEEDED" | sed 's/.*rc=//')
    res="$res $c:rc=$out"
  done
  echo "RECHECK $n$rebased:$res"
done
