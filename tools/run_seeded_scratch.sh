#!/bin/bash
# usage: tools/run_seeded_scratch.sh <dir with patch.diff> <PROP> [PROP...]
# Like run_seeded.sh, but leaves /repo and /verif untouched: the seeded change is applied to a
# scratch worktree $VS/repo (default VS=/tmp/vs) and the checks run from a scratch copy $VS/verif whose harness
# depends on that worktree. (Used while long runs against /repo are in progress.)
# NOSYNC=1 keeps the scratch copy of /verif as it is (frozen snapshot for long batches).
# tools/run_seeded_scratch.sh --clean removes the scratch area.
set -u
VS=${VS:-/tmp/vs}
if [ "${1:-}" = "--clean" ]; then
  git -C /repo worktree remove --force $VS/repo 2>/dev/null; rm -rf $VS; git -C /repo worktree prune; exit 0
fi
d=$(cd "$1" && pwd); shift
here="$(cd "$(dirname "$0")/.." && pwd)"
mkdir -p $VS
if [ ! -d $VS/repo ]; then git -C /repo worktree add --detach $VS/repo HEAD -q || exit 9; fi
git -C $VS/repo checkout -q --detach "$(git -C /repo rev-parse HEAD)"; git -C $VS/repo checkout -q -- .
[ "${NOSYNC:-}" = 1 ] || rsync -a --delete --exclude 'harness/target*' --exclude 'fuzz/target*' --exclude out --exclude .git --exclude replays --exclude evidence "$here/" $VS/verif/
mkdir -p $VS/verif/replays $VS/verif/evidence $VS/verif/out
sed -i "s|path = \"/repo\"|path = \"$VS/repo\"|" $VS/verif/harness/Cargo.toml $VS/verif/fuzz/Cargo.toml 2>/dev/null
p=$d/patch.diff; [ -f $d/patch.rebased.diff ] && p=$d/patch.rebased.diff
git -C $VS/repo apply $p || { echo "patch does not apply"; exit 9; }
cd $VS/verif
for c in "$@"; do
  out=$(./check $c ${TIER:-quick} 2>&1); rc=$?
  echo "$out" | grep -v "^built" | cut -c1-260 | head -${LINES_MAX:-5}
  echo "SEEDED $(basename $d) check=$c rc=$rc"
done
git -C $VS/repo checkout -q -- .
