#!/bin/bash
# usage: tools/run_seeded_scratch.sh <dir with patch.diff> <PROP> [PROP...]
# Like run_seeded.sh, but leaves /repo and /verif untouched: the seeded change is applied to a
# scratch worktree /tmp/vs/repo and the checks run from a scratch copy /tmp/vs/verif whose harness
# depends on that worktree. (Used while long runs against /repo are in progress.)
# NOSYNC=1 keeps the scratch copy of /verif as it is (frozen snapshot for long batches).
# tools/run_seeded_scratch.sh --clean removes the scratch area.
set -u
if [ "${1:-}" = "--clean" ]; then
  git -C /repo worktree remove --force /tmp/vs/repo 2>/dev/null; rm -rf /tmp/vs; git -C /repo worktree prune; exit 0
fi
d=$(cd "$1" && pwd); shift
here="$(cd "$(dirname "$0")/.." && pwd)"
mkdir -p /tmp/vs
if [ ! -d /tmp/vs/repo ]; then git -C /repo worktree add --detach /tmp/vs/repo HEAD -q || exit 9; fi
git -C /tmp/vs/repo checkout -q --detach "$(git -C /repo rev-parse HEAD)"; git -C /tmp/vs/repo checkout -q -- .
[ "${NOSYNC:-}" = 1 ] || rsync -a --delete --exclude 'harness/target*' --exclude 'fuzz/target*' --exclude out --exclude .git --exclude replays --exclude evidence "$here/" /tmp/vs/verif/
mkdir -p /tmp/vs/verif/replays /tmp/vs/verif/evidence /tmp/vs/verif/out
sed -i 's|path = "/repo"|path = "/tmp/vs/repo"|' /tmp/vs/verif/harness/Cargo.toml /tmp/vs/verif/fuzz/Cargo.toml 2>/dev/null
p=$d/patch.diff; [ -f $d/patch.rebased.diff ] && p=$d/patch.rebased.diff
git -C /tmp/vs/repo apply $p || { echo "patch does not apply"; exit 9; }
cd /tmp/vs/verif
for c in "$@"; do
  out=$(./check $c ${TIER:-quick} 2>&1); rc=$?
  echo "$out" | grep -v "^built" | cut -c1-260 | head -${LINES_MAX:-5}
  echo "SEEDED $(basename $d) check=$c rc=$rc"
done
git -C /tmp/vs/repo checkout -q -- .
