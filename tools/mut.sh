#!/bin/bash
# usage: tools/mut.sh <file-in-repo> <python-replace-old> <new> <PROP> [tier args...]
# applies a one-off textual mutation to /repo, runs ./check, reverts. For sensitivity experiments.
set -u
f=$1; old=$2; new=$3; shift 3
python3 - "$f" "$old" "$new" <<'PY'
import sys
p='/repo/'+sys.argv[1]; s=open(p).read()
old=sys.argv[2]; new=sys.argv[3]
assert s.count(old)>=1, "pattern not found"
open(p,'w').write(s.replace(old,new,1))
PY
[ $? -ne 0 ] && exit 9
git -C /repo diff --stat | tail -1
cd /verif
rm -rf /verif/out/evidence.bak; cp -r /verif/evidence /verif/out/evidence.bak
for p in "$@"; do ./check $p quick 2>&1 | grep -v "^built" | cut -c1-300 | head -${MUT_LINES:-6}; echo "rc=${PIPESTATUS[0]}"; done
git -C /repo checkout -- .
rm -rf /verif/evidence; mv /verif/out/evidence.bak /verif/evidence
rm -f /verif/replays/*.tape
